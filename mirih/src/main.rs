//! C18 stage C (auxiliary, sampled schedules): the concurrent-expansion bodies with free-running std threads, meant to
//! be run under Miri (`cargo +nightly miri run`), whose data-race detector sees what loom's token substitution cannot
//! (static mut, UnsafeCell / Cell behind an `unsafe impl Sync`).  Also compares every thread's observations with the
//! sequential ones.  Exit 0 = no difference observed (Miri itself aborts with "Undefined Behavior" on a race).
use arimaa_engine_step::*;
use std::sync::Arc;

fn mv(sq: u8, d: Direction) -> Action {
    Action::Move(Square::from_index(sq), d)
}

fn root() -> GameState {
    let bit = |i: u8| 1u64 << i;
    let pb = PieceBoard::new(bit(35) | bit(56), bit(35), 0, 0, 0, bit(28), bit(56) | bit(7));
    let hash = Zobrist::from_piece_board(pb.piece_board(), true, 0);
    GameState::new(true, 2, Phase::PlayPhase(PlayPhase::initial(hash, List::new().append(hash))), pb, hash)
}

fn play(actions: &[Action]) -> Vec<GameState> {
    let mut v = vec![root()];
    for a in actions {
        let t = v.last().unwrap().take_action(a);
        v.push(t);
    }
    v
}

fn observe(s: &GameState, which: usize) -> Vec<String> {
    let va = s.valid_actions();
    let mut o = vec![format!("{:?}", va), format!("{:?}", s.valid_actions_no_rep()), format!("{:?}", s.is_terminal()), format!("{}", s.can_pass(true)), format!("{:x}", s.transposition_hash())];
    for i in [which % va.len(), (which + 3) % va.len()] {
        let t = s.take_action(&va[i]);
        o.push(format!("{:x} {:?} {:?}", t.transposition_hash(), t.valid_actions(), t.is_terminal()));
        let c = t.clone();
        drop(t);
        o.push(format!("{}", c.unwrap_play_phase().hash_history().len()));
    }
    o
}

/// Stage D (auxiliary, sampled): free-running native threads on real cores.  A pool of states from deterministic play-outs
/// (full boards, incl. recurring positions) is expanded sequentially first (reference), then again and again by 12 threads
/// at once - in every round on FRESH copies of the states (replayed from scratch, so the threads are the first to query
/// and to extend them) - and every observation must equal the reference.  Catches races that the loom stage cannot see
/// because the tree does not build under loom (const-initialised statics of atomics, APIs loom does not model).
fn stress(seconds: u64) -> i32 {
    use std::sync::{Arc, Barrier};
    use std::time::{Duration, Instant};
    // deterministic games: set-up by placements, then the k-th offered action chosen by a linear congruential sequence
    let openings = ["rrrrrrrrhdcemcdhrrrrrrrrhdcmecdh", "hdcmecdhrrrrrrrrhdcemcdhrrrrrrrr", "rhrdrcremrcrdrhrhrdrcrmrercrdrhr"];
    let mut scripts: Vec<Vec<Action>> = vec![];
    for (gi, o) in openings.iter().enumerate() {
        for game in 0..4u64 {
            let mut acts: Vec<Action> = o.chars().map(|c| c.to_string().parse::<Action>().unwrap()).collect();
            let mut s = GameState::initial();
            for a in acts.iter() {
                s = s.take_action(a);
            }
            let mut x = 0x9E3779B97F4A7C15u64.wrapping_mul(gi as u64 * 7 + game + 1);
            for _ in 0..160 {
                if s.is_terminal().is_some() {
                    break;
                }
                let va = s.valid_actions();
                if va.is_empty() {
                    break;
                }
                x = x.wrapping_mul(6364136223846793005).wrapping_add(1442695040888963407);
                let a = va[((x >> 33) as usize) % va.len()];
                acts.push(a);
                s = s.take_action(&a);
            }
            scripts.push(acts);
        }
    }
    // ... and cyclic games: both sides shuffle a horse out and back, the cycle of four turn-start positions is walked twice,
    // the third entry is attempted (states whose pass / fourth step is withheld as a third repetition)
    for o in openings.iter().take(2) {
        let mut acts: Vec<Action> = o.chars().map(|c| c.to_string().parse::<Action>().unwrap()).collect();
        let mut s = GameState::initial();
        for a in acts.iter() {
            s = s.take_action(a);
        }
        // find a gold and a silver non-rabbit step that can be taken back (first offered step of a non-rabbit piece)
        let pick = |s: &GameState| -> Option<(Action, Action)> {
            for a in s.valid_actions() {
                if let Action::Move(sq, d) = a {
                    if s.piece_board().piece_type_at_square(&sq) == Some(Piece::Rabbit) {
                        continue;
                    }
                    let t = s.take_action(&a);
                    let back_dir = match d {
                        Direction::Up => Direction::Down,
                        Direction::Down => Direction::Up,
                        Direction::Left => Direction::Right,
                        Direction::Right => Direction::Left,
                    };
                    let to = match d {
                        Direction::Up => sq.index() - 8,
                        Direction::Down => sq.index() + 8,
                        Direction::Left => sq.index() - 1,
                        Direction::Right => sq.index() + 1,
                    };
                    let back = Action::Move(Square::from_index(to as u8), back_dir);
                    if t.valid_actions().contains(&Action::Pass) {
                        return Some((a, back));
                    }
                }
            }
            None
        };
        if let Some((g_out, g_back)) = pick(&s) {
            let s1 = s.take_action(&g_out).take_action(&Action::Pass);
            if let Some((s_out, s_back)) = pick(&s1) {
                for _lap in 0..2 {
                    acts.extend([g_out, Action::Pass, s_out, Action::Pass, g_back, Action::Pass, s_back, Action::Pass]);
                }
                // third lap as far as it is offered
                acts.extend([g_out, Action::Pass, s_out, Action::Pass, g_back, Action::Pass, s_back]);
                // keep only the prefix that is really playable
                let mut t = GameState::initial();
                let mut ok = vec![];
                for a in acts.iter() {
                    if !t.valid_actions().contains(a) {
                        break;
                    }
                    t = t.take_action(a);
                    ok.push(*a);
                }
                scripts.push(ok);
            }
        }
    }
    let replay = |acts: &[Action]| -> Vec<GameState> {
        let mut v = vec![GameState::initial()];
        for a in acts {
            let t = v.last().unwrap().take_action(a);
            v.push(t);
        }
        v.split_off(32) // play-phase states only
    };
    // light observation (hot loop) and full observation (every offered action applied, in an order rotated by `rot`)
    type Light = (Vec<Action>, Vec<Action>, Option<Terminal>, bool, u64);
    let light = |s: &GameState| -> Light { (s.valid_actions(), s.valid_actions_no_rep(), s.is_terminal(), s.can_pass(true), s.transposition_hash()) };
    let full = |s: &GameState, rot: usize| -> Vec<(usize, u64)> {
        use std::hash::{Hash, Hasher};
        let va = s.valid_actions();
        let n = va.len();
        let mut out: Vec<(usize, u64)> = (0..n)
            .map(|j| {
                let i = (j + rot) % n;
                let mut h = std::collections::hash_map::DefaultHasher::new();
                let pv = s.trapped_animal_for_action(&va[i]);
                let t = s.take_action(&va[i]);
                let hist: Vec<u64> = t.as_play_phase().map_or(vec![], |p| p.hash_history().iter().map(|z| z.board_state_hash()).collect());
                format!("{:?}|{:x}|{:?}|{:?}|{}", pv, t.transposition_hash(), t.is_terminal(), hist, t).hash(&mut h);
                t.valid_actions().hash(&mut h);
                (i, h.finish())
            })
            .collect();
        out.sort();
        out
    };
    // ---- phase 0: cold starts.  A lazily initialised table or cache gets exactly one racy first use per PROCESS, and a
    // sequential reference run uses that chance up.  So: fresh child processes that replay the scripts with take_action
    // only (no query), let 12 threads make the process's very first queries at the same moment (states with a pending
    // push / possible pull first), and compute the sequential reference only afterwards. ----
    let cold_children = if seconds >= 10 { 300 } else { 60 };
    {
        let file = std::env::temp_dir().join(format!("mirih-scripts-{}.txt", std::process::id()));
        let text: String = scripts.iter().map(|a| a.iter().map(|x| x.to_string()).collect::<Vec<_>>().join(" ")).collect::<Vec<_>>().join("\n");
        std::fs::write(&file, text).expect("write scripts file");
        let exe = std::env::current_exe().expect("own path");
        let bad = std::sync::atomic::AtomicUsize::new(0);
        let next = std::sync::atomic::AtomicUsize::new(0);
        std::thread::scope(|sc| {
            // four children at a time (each runs 12 threads)
            for _ in 0..4 {
                sc.spawn(|| loop {
                    let k = next.fetch_add(1, std::sync::atomic::Ordering::Relaxed);
                    if k >= cold_children || bad.load(std::sync::atomic::Ordering::Relaxed) > 0 {
                        break;
                    }
                    let out = std::process::Command::new(&exe).arg("cold").arg(&file).arg(k.to_string()).output();
                    match out {
                        Ok(o) if o.status.success() => {}
                        Ok(o) => {
                            eprintln!("{}", String::from_utf8_lossy(&o.stderr).lines().filter(|l| l.contains("MIRIH-STRESS")).collect::<Vec<_>>().join("\n"));
                            eprintln!("MIRIH-STRESS: cold-start child {} failed (exit {:?})", k, o.status.code());
                            bad.fetch_add(1, std::sync::atomic::Ordering::Relaxed);
                        }
                        Err(e) => {
                            eprintln!("mirih: cannot run cold-start child: {}", e);
                        }
                    }
                });
            }
        });
        let _ = std::fs::remove_file(&file);
        if bad.load(std::sync::atomic::Ordering::Relaxed) > 0 {
            return 1;
        }
    }
    let pools: Vec<Vec<GameState>> = scripts.iter().map(|a| replay(a)).collect();
    let ref_light: Vec<Vec<Light>> = pools.iter().map(|p| p.iter().map(|s| light(s)).collect()).collect();
    let ref_full: Vec<Vec<Vec<(usize, u64)>>> = pools.iter().map(|p| p.iter().map(|s| full(s, 0)).collect()).collect();
    let threads = 12usize;
    let t0 = Instant::now();
    let mut rounds = 0u64;
    let mut checked = 0u64;
    // ---- phase 1: hot loop over one shared pool of all states (listing actions, result, pass availability, hash) ----
    {
        let all: Arc<Vec<GameState>> = Arc::new(pools.iter().flat_map(|p| p.iter().cloned()).collect());
        let exp: Arc<Vec<Light>> = Arc::new(ref_light.iter().flat_map(|p| p.iter().cloned()).collect());
        let barrier = Arc::new(Barrier::new(threads));
        let deadline = t0 + Duration::from_millis(seconds * 500);
        let mut hs = vec![];
        for t in 0..threads {
            let (all, exp, barrier) = (all.clone(), exp.clone(), barrier.clone());
            hs.push(std::thread::spawn(move || {
                barrier.wait();
                let n = all.len();
                let mut x = 0x2545F4914F6CDD1Du64.wrapping_mul(t as u64 + 1);
                let mut count = 0u64;
                while Instant::now() < deadline {
                    for _ in 0..256 {
                        x ^= x << 13;
                        x ^= x >> 7;
                        x ^= x << 17;
                        let i = (x as usize) % n;
                        if light(&all[i]) != exp[i] {
                            return Err(i);
                        }
                        count += 1;
                    }
                }
                Ok(count)
            }));
        }
        for (t, h) in hs.into_iter().enumerate() {
            match h.join() {
                Ok(Ok(c)) => checked += c,
                Ok(Err(i)) => {
                    eprintln!("MIRIH-STRESS: hot loop, pooled state {} thread {}: concurrent queries differ from sequential queries", i, t);
                    return 1;
                }
                Err(_) => {
                    eprintln!("MIRIH-STRESS: hot loop, thread {} panicked", t);
                    return 1;
                }
            }
        }
    }
    // ---- phase 2: rounds on FRESH copies (the threads are the first to query and to extend the states) ----
    while t0.elapsed() < Duration::from_secs(seconds) {
        for (gi, acts) in scripts.iter().enumerate() {
            let fresh: Arc<Vec<GameState>> = Arc::new(replay(acts));
            let barrier = Arc::new(Barrier::new(threads));
            let mut hs = vec![];
            for t in 0..threads {
                let (fresh, barrier) = (fresh.clone(), barrier.clone());
                let (el, ef) = (ref_light[gi].clone(), ref_full[gi].clone());
                hs.push(std::thread::spawn(move || {
                    barrier.wait();
                    let n = fresh.len();
                    // all threads walk the states in the same order (so that they meet on the same state), newest first in
                    // odd rounds; each applies the offered actions in its own rotation (different turn-ending actions at once)
                    for j in 0..n {
                        let i = if t % 2 == 0 { n - 1 - j } else { j };
                        if light(&fresh[i]) != el[i] || full(&fresh[i], t * 3) != ef[i] {
                            return Some(i);
                        }
                    }
                    None
                }));
            }
            for (t, h) in hs.into_iter().enumerate() {
                match h.join() {
                    Ok(None) => {}
                    Ok(Some(i)) => {
                        eprintln!("MIRIH-STRESS: game {} state {} thread {}: concurrent expansion differs from sequential expansion", gi, i, t);
                        return 1;
                    }
                    Err(_) => {
                        eprintln!("MIRIH-STRESS: game {} thread {} panicked during concurrent expansion", gi, t);
                        return 1;
                    }
                }
            }
            checked += (fresh.len() * threads) as u64;
            if t0.elapsed() >= Duration::from_secs(seconds) {
                break;
            }
        }
        rounds += 1;
    }
    println!("mirih stress ok cold_start_processes={} rounds={} state_expansions_compared={}", cold_children, rounds, checked);
    0
}

/// One cold-start child: see phase 0 of `stress`.
fn cold(file: &str, k: usize) -> i32 {
    use std::sync::{Arc, Barrier};
    let text = std::fs::read_to_string(file).expect("scripts file");
    let scripts: Vec<Vec<Action>> = text.lines().map(|l| l.split_whitespace().map(|t| t.parse::<Action>().expect("action")).collect()).collect();
    // this child looks at one script (round robin), replayed WITHOUT any query
    let acts = &scripts[k % scripts.len()];
    let mut states = vec![GameState::initial()];
    for a in acts {
        let t = states.last().unwrap().take_action(a);
        states.push(t);
    }
    let mut states = states.split_off(32);
    // states with something pending first (plain accessor, not a query)
    states.sort_by_key(|s| match s.as_play_phase().map(|p| p.push_pull_state()) {
        Some(PushPullState::MustCompletePush(_, _)) => 0,
        Some(PushPullState::PossiblePull(_, _)) => 1,
        _ => 2,
    });
    let n = states.len().min(48);
    let shared: Arc<Vec<GameState>> = Arc::new(states);
    type Light = (Vec<Action>, Vec<Action>, Option<Terminal>, bool, u64);
    fn light(s: &GameState) -> Light {
        (s.valid_actions(), s.valid_actions_no_rep(), s.is_terminal(), s.can_pass(true), s.transposition_hash())
    }
    let threads = 12usize;
    let barrier = Arc::new(Barrier::new(threads));
    let mut hs = vec![];
    for t in 0..threads {
        let (shared, barrier) = (shared.clone(), barrier.clone());
        hs.push(std::thread::spawn(move || {
            barrier.wait();
            // thread t starts at state (t + k) so that the first queries of the process hit different states
            (0..n).map(|j| { let i = (j + t + k) % n; (i, light(&shared[i])) }).collect::<Vec<_>>()
        }));
    }
    let results: Vec<Vec<(usize, Light)>> = hs.into_iter().map(|h| h.join().expect("thread")).collect();
    // sequential reference afterwards
    let reference: Vec<Light> = (0..n).map(|i| light(&shared[i])).collect();
    for (t, r) in results.iter().enumerate() {
        for (i, l) in r.iter() {
            if *l != reference[*i] {
                eprintln!("MIRIH-STRESS: cold start, thread {}: the first concurrent queries of the process on state {} differ from sequential queries", t, i);
                return 1;
            }
        }
    }
    0
}

fn main() {
    let args: Vec<String> = std::env::args().collect();
    if args.get(1).map(|s| s.as_str()) == Some("cold") {
        std::process::exit(cold(&args[2], args[3].parse().unwrap_or(0)));
    }
    if args.get(1).map(|s| s.as_str()) == Some("stress") {
        std::process::exit(stress(args.get(2).and_then(|s| s.parse().ok()).unwrap_or(4)));
    }
    // same paths as the loom bodies B1 (pushes / pulls / 4th steps on a 5-turn history) and B5 (third repetition)
    let mut b1: Vec<Action> = vec![mv(35, Direction::Left), Action::Pass, mv(28, Direction::Left), Action::Pass, mv(34, Direction::Up), Action::Pass, mv(7, Direction::Down), Action::Pass];
    b1.extend([mv(26, Direction::Left), mv(27, Direction::Left), mv(25, Direction::Up)]);
    let mut b5: Vec<Action> = vec![];
    for round in 0..2 {
        b5.extend([mv(35, Direction::Left), Action::Pass, mv(7, Direction::Left), Action::Pass, mv(34, Direction::Right), Action::Pass]);
        if round == 0 {
            b5.extend([mv(6, Direction::Right), Action::Pass]);
        }
    }
    b5.push(mv(6, Direction::Right));
    let mut failures = 0;
    for (name, acts, picks) in [("B1", &b1, vec![8usize, 9, 11]), ("B5", &b5, vec![b5.len() - 1, b5.len()])] {
        let reference = play(acts);
        let expected: Vec<Vec<Vec<String>>> = (0..3).map(|t| picks.iter().map(|&i| observe(&reference[i], t)).collect()).collect();
        let fresh = play(acts);
        let shared: Vec<Arc<GameState>> = picks.iter().map(|&i| Arc::new(fresh[i].clone())).collect();
        drop(fresh);
        let mut hs = vec![];
        for t in 0..3usize {
            let sh: Vec<Arc<GameState>> = shared.iter().cloned().collect();
            hs.push(std::thread::spawn(move || sh.iter().map(|s| observe(s, t)).collect::<Vec<_>>()));
        }
        drop(shared);
        for (t, h) in hs.into_iter().enumerate() {
            let got = h.join().unwrap();
            if got != expected[t] {
                eprintln!("MIRIH: body {} thread {} observed results that differ from sequential expansion", name, t);
                failures += 1;
            }
        }
    }
    if failures > 0 {
        std::process::exit(1);
    }
    println!("mirih ok");
}
