//! C18 stage C (auxiliary, sampled schedules): the concurrent-expansion bodies with free-running std threads, meant to
//! be run under Miri (`cargo +nightly miri run`), whose data-race detector sees what loom's token substitution cannot
//! (static mut, UnsafeCell / Cell behind an `unsafe impl Sync`).  Also compares every thread's observations with the
//! sequential ones.  Exit 0 = no difference observed (Miri itself aborts with "Undefined Behavior" on a race).
use arimaa_engine_step::*;
use std::sync::Arc;

fn mv(sq: u8, d: Direction) -> Action {
    Action::Move(Square::from_index(sq), d)
}

fn root() -> GameState {
    let bit = |i: u8| 1u64 << i;
    let pb = PieceBoard::new(bit(35) | bit(56), bit(35), 0, 0, 0, bit(28), bit(56) | bit(7));
    let hash = Zobrist::from_piece_board(pb.piece_board(), true, 0);
    GameState::new(true, 2, Phase::PlayPhase(PlayPhase::initial(hash, List::new().append(hash))), pb, hash)
}

fn play(actions: &[Action]) -> Vec<GameState> {
    let mut v = vec![root()];
    for a in actions {
        let t = v.last().unwrap().take_action(a);
        v.push(t);
    }
    v
}

fn observe(s: &GameState, which: usize) -> Vec<String> {
    let va = s.valid_actions();
    let mut o = vec![format!("{:?}", va), format!("{:?}", s.valid_actions_no_rep()), format!("{:?}", s.is_terminal()), format!("{}", s.can_pass(true)), format!("{:x}", s.transposition_hash())];
    for i in [which % va.len(), (which + 3) % va.len()] {
        let t = s.take_action(&va[i]);
        o.push(format!("{:x} {:?} {:?}", t.transposition_hash(), t.valid_actions(), t.is_terminal()));
        let c = t.clone();
        drop(t);
        o.push(format!("{}", c.unwrap_play_phase().hash_history().len()));
    }
    o
}

fn main() {
    // same paths as the loom bodies B1 (pushes / pulls / 4th steps on a 5-turn history) and B5 (third repetition)
    let mut b1: Vec<Action> = vec![mv(35, Direction::Left), Action::Pass, mv(28, Direction::Left), Action::Pass, mv(34, Direction::Up), Action::Pass, mv(7, Direction::Down), Action::Pass];
    b1.extend([mv(26, Direction::Left), mv(27, Direction::Left), mv(25, Direction::Up)]);
    let mut b5: Vec<Action> = vec![];
    for round in 0..2 {
        b5.extend([mv(35, Direction::Left), Action::Pass, mv(7, Direction::Left), Action::Pass, mv(34, Direction::Right), Action::Pass]);
        if round == 0 {
            b5.extend([mv(6, Direction::Right), Action::Pass]);
        }
    }
    b5.push(mv(6, Direction::Right));
    let mut failures = 0;
    for (name, acts, picks) in [("B1", &b1, vec![8usize, 9, 11]), ("B5", &b5, vec![b5.len() - 1, b5.len()])] {
        let reference = play(acts);
        let expected: Vec<Vec<Vec<String>>> = (0..3).map(|t| picks.iter().map(|&i| observe(&reference[i], t)).collect()).collect();
        let fresh = play(acts);
        let shared: Vec<Arc<GameState>> = picks.iter().map(|&i| Arc::new(fresh[i].clone())).collect();
        drop(fresh);
        let mut hs = vec![];
        for t in 0..3usize {
            let sh: Vec<Arc<GameState>> = shared.iter().cloned().collect();
            hs.push(std::thread::spawn(move || sh.iter().map(|s| observe(s, t)).collect::<Vec<_>>()));
        }
        drop(shared);
        for (t, h) in hs.into_iter().enumerate() {
            let got = h.join().unwrap();
            if got != expected[t] {
                eprintln!("MIRIH: body {} thread {} observed results that differ from sequential expansion", name, t);
                failures += 1;
            }
        }
    }
    if failures > 0 {
        std::process::exit(1);
    }
    println!("mirih ok");
}
