//! C18 stage A: the public value types must be Send + Sync (decided by the type checker).
//! A failure here is error E0277 on one of the lines below.
use arimaa_engine_step::*;

fn is<T: Send + Sync>() {}

pub fn all() {
    is::<GameState>(); // C18-A GameState
    is::<PieceBoardState>(); // C18-A PieceBoardState
    is::<PieceBoard>(); // C18-A PieceBoard
    is::<PlayPhase>(); // C18-A PlayPhase
    is::<Phase>(); // C18-A Phase
    is::<PushPullState>(); // C18-A PushPullState
    is::<Action>(); // C18-A Action
    is::<Square>(); // C18-A Square
    is::<Piece>(); // C18-A Piece
    is::<Direction>(); // C18-A Direction
    is::<Terminal>(); // C18-A Terminal
    is::<Zobrist>(); // C18-A Zobrist
    is::<List<Zobrist>>(); // C18-A List<Zobrist>
    is::<List<u64>>(); // C18-A List<u64>
    // the borrowed views handed out by the history list (whatever their type is called)
    fn val<T: Send + Sync>(_: &T) {}
    let l: List<Zobrist> = List::new();
    val(&l.iter()); // C18-A the iterator returned by List::iter()
    val(&l.head()); // C18-A the value returned by List::head()
}
