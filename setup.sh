#!/bin/bash
# Builds the verification harness offline from files on disk (engine dependency = /repo's working tree).
set -eu
cd "$(dirname "$0")"
export CARGO_NET_OFFLINE=true
ln -sfn "${VERIF_REPO:-/repo}" engine-link
mkdir -p target evidence violations
(cd mc && CARGO_TARGET_DIR=../target/mc cargo build --release --offline)
(cd stackchild && CARGO_TARGET_DIR=../target/stackchild cargo build --release --offline && CARGO_TARGET_DIR=../target/stackchild cargo build --offline)
echo "setup done"
# C18: pre-build the Send+Sync probe and the loom harness (also warms the dependency builds)
./scripts/check_c18.sh quick >/dev/null 2>&1 || true
echo "setup: C18 builds warmed"
