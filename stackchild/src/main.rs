//! C20 child process: builds a long capture-free game history, then clones / queries / drops it on a thread with an
//! explicitly sized stack.  Exit 0 = everything returned; a stack overflow kills the process with a signal.
//!   stackchild <play|synthetic> <N> <stack_bytes> <sole|clone|shared_ab|shared_ba|other_thread>
use arimaa_engine_step::*;

/// Squares of the touring pieces.  Gold: E on rank 2 (a2..h2), M on rank 4 (a4..h4), H on b1..g1, toggle D on d3/e3,
/// rabbits parked on a1/h1.  Silver is the rank-flipped image.  No piece ever stands on or next to a trap alone, no
/// piece is ever frozen (only equal camels touch across ranks 4/5), so the game is capture-free.
const RADIX: [usize; 3] = [8, 8, 6];

fn digit_square(gold: bool, digit: usize, value: usize) -> u8 {
    let (row, file) = match digit {
        0 => (if gold { 6 } else { 1 }, value),     // elephant: rank 2 / rank 7
        1 => (if gold { 4 } else { 3 }, value),     // camel: rank 4 / rank 5
        _ => (if gold { 7 } else { 0 }, 1 + value), // horse: b1..g1 / b8..g8
    };
    (row * 8 + file) as u8
}

fn toggle_square(gold: bool, value: usize) -> u8 {
    ((if gold { 5 } else { 2 }) * 8 + 3 + value) as u8 // d3/e3, d6/e6
}

fn start_state() -> GameState {
    let bit = |i: u8| 1u64 << i;
    let g_r = bit(56) | bit(63);
    let s_r = bit(0) | bit(7);
    let e = bit(digit_square(true, 0, 0)) | bit(digit_square(false, 0, 0));
    let m = bit(digit_square(true, 1, 0)) | bit(digit_square(false, 1, 0));
    let h = bit(digit_square(true, 2, 0)) | bit(digit_square(false, 2, 0));
    let d = bit(toggle_square(true, 0)) | bit(toggle_square(false, 0));
    let p1 = g_r | bit(digit_square(true, 0, 0)) | bit(digit_square(true, 1, 0)) | bit(digit_square(true, 2, 0)) | bit(toggle_square(true, 0));
    let pb = PieceBoard::new(p1, e, m, h, d, 0, g_r | s_r);
    let hash = Zobrist::from_piece_board(pb.piece_board(), true, 0);
    GameState::new(true, 2, Phase::PlayPhase(PlayPhase::initial(hash, List::new().append(hash))), pb, hash)
}

/// Reflected mixed-radix Gray code: the list of (digit, delta) moves visiting all prod(RADIX) digit vectors once.
fn gray_moves() -> Vec<(usize, i32)> {
    let mut a = [0i32; 3];
    let mut d = [1i32; 3];
    let mut out = vec![];
    loop {
        let mut moved = false;
        for k in 0..3 {
            let n = a[k] + d[k];
            if n >= 0 && (n as usize) < RADIX[k] {
                a[k] = n;
                for j in 0..k {
                    d[j] = -d[j];
                }
                out.push((k, d[k]));
                moved = true;
                break;
            }
        }
        if !moved {
            return out;
        }
    }
}

struct Side {
    gold: bool,
    digits: [usize; 3],
    toggle: usize,
}

impl Side {
    fn digit_action(&mut self, k: usize, delta: i32) -> Action {
        let from = digit_square(self.gold, k, self.digits[k]);
        self.digits[k] = (self.digits[k] as i32 + delta) as usize;
        Action::Move(Square::from_index(from), if delta > 0 { Direction::Right } else { Direction::Left })
    }
    fn toggle_action(&mut self) -> Action {
        let from = toggle_square(self.gold, self.toggle);
        let dir = if self.toggle == 0 { Direction::Right } else { Direction::Left };
        self.toggle = 1 - self.toggle;
        Action::Move(Square::from_index(from), dir)
    }
}

/// Deterministic capture-free, repetition-free game of n turns (one step + pass each); every action is checked to be in
/// valid_actions() of the state it is applied to.  Gold sweeps its Gray code forwards and backwards, Silver toggles a
/// dog meanwhile and advances its own Gray code by one at the end of every sweep: all 2 * 384 * 384 positions differ.
fn play(n: usize) -> GameState {
    let moves = gray_moves();
    let mut s = start_state();
    let mut g = Side { gold: true, digits: [0; 3], toggle: 0 };
    let mut sv = Side { gold: false, digits: [0; 3], toggle: 0 };
    let (mut i, mut fwd, mut j, mut row_end) = (0usize, true, 0usize, false);
    for turn in 0..n {
        let gold = s.is_p1_turn_to_move();
        let a = if gold {
            if fwd && i < moves.len() {
                let (k, d) = moves[i];
                i += 1;
                g.digit_action(k, d)
            } else if !fwd && i > 0 {
                let (k, d) = moves[i - 1];
                i -= 1;
                g.digit_action(k, -d)
            } else {
                row_end = true;
                g.toggle_action()
            }
        } else if row_end {
            row_end = false;
            fwd = !fwd;
            if j >= moves.len() {
                eprintln!("stackchild: tour exhausted at turn {}", turn);
                std::process::exit(3);
            }
            let (k, d) = moves[j];
            j += 1;
            sv.digit_action(k, d)
        } else {
            sv.toggle_action()
        };
        if !s.valid_actions().contains(&a) || s.trapped_animal_for_action(&a).is_some() {
            eprintln!("stackchild: planned step {} not offered (or captures) at turn {}", a, turn);
            std::process::exit(3);
        }
        let t = s.take_action(&a);
        if !t.valid_actions().contains(&Action::Pass) {
            eprintln!("stackchild: pass not offered at turn {}", turn);
            std::process::exit(3);
        }
        s = t.take_action(&Action::Pass);
    }
    let len = s.unwrap_play_phase().hash_history().len();
    if len != n + 1 {
        eprintln!("stackchild: history has {} entries after {} capture-free turns", len, n);
        std::process::exit(3);
    }
    s
}

/// A start-of-turn hash that is different for every i (i < 2^22): the hash of the start board plus a "counter" written in
/// binary with gold rabbits / cats on ranks 3-6 (22 of the squares that are empty in the start board) - built with the public API.
fn distinct_value(pb: &PieceBoard, side: bool, i: usize) -> Zobrist {
    let p = pb.piece_board();
    let mut rabbits = p.rabbits;
    let mut p1 = p.p1_pieces;
    let mut bit = 0;
    for sq in 16..48u32 {
        // skip the trap squares c6 (18) and f6 (21): a lone piece there would not be a legal position (irrelevant for a
        // hash value, but kept tidy)
        if sq == 18 || sq == 21 || sq == 42 || sq == 45 || (p.all_pieces >> sq) & 1 == 1 {
            continue;
        }
        if bit < 22 && (i >> bit) & 1 == 1 {
            rabbits |= 1u64 << sq;
            p1 |= 1u64 << sq;
        }
        bit += 1;
    }
    let b = PieceBoard::new(p1, p.elephants, p.camels, p.horses, p.dogs, p.cats, rabbits);
    Zobrist::from_piece_board(b.piece_board(), side, 0)
}

/// A history of n nodes built through the public constructors only (labelled synthetic: not a played game).
fn synthetic(n: usize) -> GameState {
    synthetic_with_period(n, usize::MAX)
}

/// `period`: history value i is derived from i % period: with period = n / 2 every recorded position occurs exactly
/// twice (legal: only a third occurrence is forbidden) - a long game that went round a long cycle twice.
fn synthetic_with_period(n: usize, period: usize) -> GameState {
    let base = start_state();
    let pb = PieceBoard::new(
        base.piece_board().p1_pieces,
        base.piece_board().elephants,
        base.piece_board().camels,
        base.piece_board().horses,
        base.piece_board().dogs,
        base.piece_board().cats,
        base.piece_board().rabbits,
    );
    let hash = Zobrist::from_piece_board(pb.piece_board(), true, 0);
    let mut hist = List::new();
    for i0 in 0..n {
        // distinct values (within one period) so nothing counts as a third repetition
        let i = i0 % period.max(1);
        let side = i % 2 == 0;
        let z = distinct_value(&pb, side, i);
        hist = hist.append(z);
    }
    hist = hist.append(hash);
    GameState::new(true, 2 + n / 2, Phase::PlayPhase(PlayPhase::initial(hash, hist)), pb, hash)
}

fn queries(s: &GameState) -> usize {
    let mut acc = 0usize;
    acc += s.valid_actions().len();
    acc += s.valid_actions_no_rep().len();
    acc += s.is_terminal().is_some() as usize;
    acc += s.can_pass(true) as usize + s.can_pass(false) as usize;
    acc += s.has_move(s.piece_board()).is_some() as usize;
    acc += (s.transposition_hash() & 1) as usize;
    acc += s.to_string().len();
    acc += s.piece_board_for_step(0).all_pieces.count_ones() as usize;
    acc += s.unwrap_play_phase().hash_history().len();
    acc
}

fn body(mode: &str, n: usize, shape: &str, stack: usize) {
    let s = if mode == "play" { play(n) } else if mode == "synthetic2" { synthetic_with_period(n, (n / 2).max(1)) } else { synthetic(n) };
    let c = s.clone();
    let mut acc = queries(&s) + queries(&c);
    drop(c);
    // one step inside the long game, queried mid-turn as well
    let first = s.valid_actions().into_iter().find(|a| matches!(a, Action::Move(_, _))).expect("a step");
    let mid = s.take_action(&first);
    acc += queries(&mid);
    match shape {
        "sole" => {
            drop(mid);
            drop(s);
        }
        "clone" => {
            let c2 = s.clone();
            drop(mid);
            drop(s);
            acc += queries(&c2);
            drop(c2);
        }
        "shared_ab" | "shared_ba" => {
            // two descendants that each appended one node to the shared history
            let acts: Vec<Action> = s.valid_actions().into_iter().filter(|a| matches!(a, Action::Move(_, _))).take(2).collect();
            let a = s.take_action(&acts[0]).take_action(&Action::Pass);
            let b = s.take_action(&acts[1]).take_action(&Action::Pass);
            drop(mid);
            drop(s);
            if shape == "shared_ab" {
                drop(a);
                acc += queries(&b);
                drop(b);
            } else {
                drop(b);
                acc += queries(&a);
                drop(a);
            }
        }
        "diverge8" => {
            // two descendants that share the long tail and each play 8 further turns of their own; dropped in both orders
            drop(mid);
            let grow = |base: &GameState, pick: usize| -> GameState {
                let mut g = base.clone();
                for t in 0..8usize {
                    let va = g.valid_actions();
                    let steps: Vec<&Action> = va.iter().filter(|a| matches!(a, Action::Move(_, _)) && g.trapped_animal_for_action(a).is_none()).collect();
                    let a = *steps[(pick + t) % steps.len()];
                    let h = g.take_action(&a);
                    g = if h.valid_actions().contains(&Action::Pass) { h.take_action(&Action::Pass) } else { h };
                }
                g
            };
            for order in 0..2 {
                let a = grow(&s, 0);
                let b = grow(&s, 1);
                if order == 0 {
                    drop(a);
                    acc += queries(&b);
                    drop(b);
                } else {
                    drop(b);
                    acc += queries(&a);
                    drop(a);
                }
            }
            drop(s);
        }
        "clones64" => {
            drop(mid);
            let clones: Vec<GameState> = (0..64).map(|_| s.clone()).collect();
            drop(s);
            for (i, c) in clones.into_iter().enumerate() {
                if i % 16 == 0 {
                    acc += queries(&c);
                }
                drop(c);
            }
        }
        "tail_handle" => {
            // handles into the middle of the history (tail of tail ...) outlive the state, then go last
            drop(mid);
            let hist = s.unwrap_play_phase().hash_history().clone();
            let t1 = hist.tail();
            let mut deep = t1.tail();
            for _ in 0..8 {
                deep = deep.tail();
            }
            drop(s);
            drop(hist);
            acc += t1.len();
            drop(t1);
            acc += deep.iter().count();
            drop(deep);
        }
        "concurrent" => {
            // two (then three) owners of the same history release it at the same moment on different threads; repeated
            // with fresh histories (sampled schedules - the exhaustive counterpart is loom body B6)
            drop(mid);
            let mut cur = Some(s);
            for round in 0..40usize {
                let s0 = cur.take().unwrap_or_else(|| if mode == "play" { play(n.min(2000)) } else if mode == "synthetic2" { synthetic_with_period(n, (n / 2).max(1)) } else { synthetic(n) });
                let owners = 2 + round % 2;
                let barrier = std::sync::Arc::new(std::sync::Barrier::new(owners));
                let mut hs = vec![];
                for _ in 0..owners {
                    let c = s0.clone();
                    let b = barrier.clone();
                    hs.push(std::thread::Builder::new().stack_size(stack).spawn(move || {
                        b.wait();
                        drop(c);
                    }).unwrap());
                }
                drop(s0);
                for h in hs {
                    h.join().unwrap();
                }
            }
        }
        "twins" => {
            // the same game replayed / restored a second time, independently allocated: comparing the two states, hashing
            // them and looking them up in hash-keyed collections are queries too (a transposition table does exactly this)
            drop(mid);
            let t = if mode == "play" { play(n) } else if mode == "synthetic2" { synthetic_with_period(n, (n / 2).max(1)) } else { synthetic(n) };
            acc += (s == t) as usize + (t == s) as usize + (s != t) as usize;
            let c = s.clone();
            acc += (c == s) as usize;
            let std_hash = |g: &GameState| {
                use std::hash::{Hash, Hasher};
                let mut h = std::collections::hash_map::DefaultHasher::new();
                g.hash(&mut h);
                h.finish()
            };
            acc += (std_hash(&s) == std_hash(&t)) as usize;
            let mut set: std::collections::HashSet<GameState> = std::collections::HashSet::new();
            set.insert(s.clone());
            acc += set.contains(&t) as usize;
            acc += set.insert(t.clone()) as usize;
            let mut map: std::collections::HashMap<GameState, usize> = std::collections::HashMap::new();
            map.insert(t, 1);
            acc += map.get(&s).copied().unwrap_or(0);
            drop(map);
            drop(set);
            drop(c);
            drop(s);
        }
        "other_thread" => {
            drop(mid);
            let h = std::thread::Builder::new().stack_size(stack).spawn(move || {
                let k = queries(&s);
                drop(s);
                k
            });
            acc += h.unwrap().join().unwrap();
        }
        _ => {
            eprintln!("unknown shape");
            std::process::exit(2);
        }
    }
    std::hint::black_box(acc);
}

fn main() {
    let a: Vec<String> = std::env::args().collect();
    if a.len() != 5 {
        eprintln!("usage: stackchild <play|synthetic> <N> <stack_bytes> <shape>");
        std::process::exit(2);
    }
    let mode = a[1].clone();
    let n: usize = a[2].parse().unwrap();
    let stack: usize = a[3].parse().unwrap();
    let shape = a[4].clone();
    let h = std::thread::Builder::new().stack_size(stack).spawn(move || body(&mode, n, &shape, stack)).unwrap();
    match h.join() {
        Ok(()) => {
            println!("ok");
            std::process::exit(0)
        }
        Err(_) => {
            eprintln!("stackchild: panic in body");
            std::process::exit(4)
        }
    }
}
