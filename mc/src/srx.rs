//! Cross-check of the E2 explorer itself (thorough only, feature "sr"): the same confined-game model wrapped as a
//! `stateright::Model` and explored by stateright's own DFS; its unique-state count must equal E2's count for each
//! configuration.  A mismatch is a machinery error (exit 2), never a verdict about the engine.
use crate::e2::{self, Config};
use crate::explore::*;
use crate::families::board_from_diagram;
use crate::glue::*;
use crate::refmodel as rm;
use arimaa_engine_step::Action;
use stateright::{Checker, Model, Property};
use std::hash::{Hash, Hasher};

#[derive(Clone)]
pub struct SrState {
    pub node: Node,
    key: e2::GameKey,
}
impl PartialEq for SrState {
    fn eq(&self, o: &Self) -> bool {
        self.key == o.key
    }
}
impl Eq for SrState {}
impl Hash for SrState {
    fn hash<H: Hasher>(&self, h: &mut H) {
        self.key.hash(h)
    }
}
impl std::fmt::Debug for SrState {
    fn fmt(&self, f: &mut std::fmt::Formatter) -> std::fmt::Result {
        write!(f, "{}", self.node.gs)
    }
}

pub struct SrModel {
    pub cfg: Config,
    pub root: RootInfo,
}

impl SrModel {
    fn successors(&self, st: &SrState) -> Vec<(Action, SrState)> {
        let mut ctx = Ctx::new(0, "SR", &self.root);
        let succ = visit(&mut ctx, &st.node);
        let mut out = vec![];
        for s in succ {
            let follow = match s.action {
                Action::Pass => true,
                Action::Move(from, d) => match rm::nb(from.index(), dir_index(d)) {
                    Some(to) => {
                        let c = st.node.board[from.index()];
                        c != rm::EMPTY && self.cfg.allowed(rm::is_gold(c), to, st.node.hist.len() == 1)
                    }
                    None => false,
                },
                Action::Place(_) => false,
            };
            if !follow {
                continue;
            }
            if let Some(mt) = self.cfg.max_turns {
                if s.node.hist.len() > mt + 1 {
                    continue;
                }
            }
            let key = e2::game_key(&s.node);
            out.push((s.action, SrState { node: s.node, key }));
        }
        out
    }
}

impl Model for SrModel {
    type State = SrState;
    type Action = Action;
    fn init_states(&self) -> Vec<SrState> {
        let n = root_node(&self.root);
        let key = e2::game_key(&n);
        vec![SrState { node: n, key }]
    }
    fn actions(&self, state: &SrState, actions: &mut Vec<Action>) {
        for (a, _) in self.successors(state) {
            actions.push(a);
        }
    }
    fn next_state(&self, last: &SrState, action: Action) -> Option<SrState> {
        self.successors(last).into_iter().find(|(a, _)| *a == action).map(|(_, s)| s)
    }
    fn properties(&self) -> Vec<Property<Self>> {
        vec![Property::<Self>::always("state is a play-phase state", |_, s| s.node.gs.is_play_phase())]
    }
}

/// Returns (config name, E2 count, stateright count) for every fix-point configuration small enough.
pub fn cross_check(cfgs: &[Config]) -> Vec<(String, u64, u64)> {
    let mut out = vec![];
    for (i, cfg) in cfgs.iter().enumerate() {
        let r = e2::run_config("SR", 0, cfg, i as u64);
        if !r.complete || r.stats.states > 400_000 {
            continue;
        }
        let (mut board, _, mut mn) = board_from_diagram(&cfg.diagram).unwrap();
        let how = match &cfg.setup {
            Some(o) => {
                board = crate::families::board_of_setup(o);
                mn = 2;
                RootHow::Setup(o.clone())
            }
            None if i % 2 == 1 => RootHow::Parsed,
            None => RootHow::Constructed,
        };
        let root = RootInfo { how, explorer: "SR", family: "SR".into(), idx: i as u64, board, gold: cfg.gold_to_move, move_number: mn, config: serde_json::Value::Null };
        let model = SrModel { cfg: cfg.clone(), root };
        let checker = model.checker().threads(8).spawn_dfs().join();
        out.push((cfg.name.clone(), r.stats.states, checker.unique_state_count() as u64));
    }
    out
}
