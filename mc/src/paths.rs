//! Scripted games: long / structured histories that neither fix-point exploration nor one-turn exploration reaches.
//! A script is one path; the runners (plain: every enabled oracle of `explore::visit`; lock-step: `sym::compare`)
//! evaluate ALL offered actions of every state on it, so turn-ending actions that would repeat a position a third time
//! must be withheld wherever they come up, and nothing else may be.
use crate::explore::*;
use crate::glue::*;
use crate::refmodel as rm;
use crate::report::{self, FamilyResult, Stats};
use arimaa_engine_step::*;
use rayon::prelude::*;
use std::panic::{catch_unwind, AssertUnwindSafe};
use std::time::Instant;

#[derive(Clone)]
pub struct Script {
    pub board: rm::Board,
    pub gold: bool,
    pub move_number: usize,
    /// the turns, each a list of actions ending with a pass or a fourth step
    pub turns: Vec<Vec<Action>>,
    pub config: serde_json::Value,
}

fn dir_between(a: usize, b: usize) -> usize {
    // 0 N, 1 E, 2 S, 3 W in the numbering of glue::action_of
    if b + 8 == a {
        0
    } else if b == a + 1 {
        1
    } else if b == a + 8 {
        2
    } else {
        3
    }
}

/// clockwise perimeter of the 2 x k rectangle whose top-left corner is (file 0, row `top`)
fn ring(top: usize, k: usize) -> Vec<usize> {
    let mut v = vec![];
    for f in 0..k {
        v.push(top * 8 + f);
    }
    for f in (0..k).rev() {
        v.push((top + 1) * 8 + f);
    }
    v
}

/// One walker: a piece that returns to its square after exactly `p` own turns: ring of p squares (p even) or of p + 1
/// squares with one two-step turn (p odd).
struct Walker {
    ring: Vec<usize>,
    p: usize,
}
impl Walker {
    fn new(top: usize, p: usize) -> Walker {
        let l = if p % 2 == 0 { p } else { p + 1 };
        Walker { ring: ring(top, l / 2), p }
    }
    /// ring index of the piece after `t` own turns
    fn index_after(&self, t: usize) -> usize {
        let j = t % self.p;
        j % self.ring.len()
    }
    /// the steps of own turn number `t` (0-based)
    fn steps(&self, t: usize) -> Vec<Action> {
        let l = self.ring.len();
        let j = t % self.p;
        let mut v = vec![];
        let mut at = j;
        let n = if self.p % 2 == 1 && j == self.p - 1 { 2 } else { 1 };
        for _ in 0..n {
            let (a, b) = (self.ring[at % l], self.ring[(at + 1) % l]);
            v.push(action_of(a, dir_between(a, b)));
            at += 1;
        }
        v
    }
}

/// Distance sweep: Gold E and Silver e both return to their squares after exactly p own turns (p = 3..=16), so every
/// position of the game recurs after exactly p own turns of the side that created it; two laps, third entry attempted.
/// `rot`: the root is the position after `rot` turns of the walk; `prefix`: irreversible turns by two cats before the walk
/// (shifts where the cycle falls in the history); `pad`: remaining pieces on the free files of the home ranks.
pub fn distance_scripts(thorough: bool) -> Vec<Script> {
    let mut out = vec![];
    for p in 3..=16usize {
        let (g, s) = (Walker::new(6, p), Walker::new(0, p));
        let width = g.ring.len() / 2;
        let rots: Vec<usize> = if thorough { (0..2 * p).collect() } else { vec![0, 1, p, 2 * p - 1] };
        for &rot in rots.iter() {
            for prefix in [0usize, 1, 2, 3] {
                for pad in [false, true] {
                    if pad && width > 5 {
                        continue;
                    }
                    if !thorough && pad && (prefix == 1 || prefix == 3) {
                        continue;
                    }
                    let gold_first = rot % 2 == 0;
                    let (g0, s0) = ((rot + 1) / 2, rot / 2);
                    let mut board = [rm::EMPTY; 64];
                    board[g.ring[g.index_after(g0)]] = rm::cell(true, 5);
                    board[s.ring[s.index_after(s0)]] = rm::cell(false, 5);
                    board[crate::e2::sq("h3")] = rm::cell(true, 0);
                    board[crate::e2::sq("h6")] = rm::cell(false, 0);
                    let gold_cat: Vec<usize> = (0..7).map(|f| 4 * 8 + f).collect();
                    let silver_cat: Vec<usize> = (0..7).map(|f| 3 * 8 + 7 - f).collect();
                    board[gold_cat[0]] = rm::cell(true, 1);
                    board[silver_cat[0]] = rm::cell(false, 1);
                    if pad {
                        let army: [u8; 13] = [4, 3, 3, 2, 2, 1, 0, 0, 0, 0, 0, 0, 0];
                        for gold in [true, false] {
                            let mut n = 0;
                            for f in (width + 1)..8 {
                                for row in if gold { [6usize, 7] } else { [1usize, 0] } {
                                    if n < army.len() && board[row * 8 + f] == rm::EMPTY {
                                        board[row * 8 + f] = rm::cell(gold, army[n]);
                                        n += 1;
                                    }
                                }
                            }
                        }
                    }
                    let mut turns: Vec<Vec<Action>> = vec![];
                    let (mut gc, mut sc) = (0usize, 0usize);
                    let (mut gt, mut st) = (g0, s0);
                    let total = prefix + 4 * p;
                    for turn in 0..total {
                        let gold = (turn % 2 == 0) == gold_first;
                        let mut t: Vec<Action> = if turn < prefix {
                            if gold {
                                gc += 1;
                                vec![action_of(gold_cat[gc - 1], 1)]
                            } else {
                                sc += 1;
                                vec![action_of(silver_cat[sc - 1], 3)]
                            }
                        } else if gold {
                            gt += 1;
                            g.steps(gt - 1)
                        } else {
                            st += 1;
                            s.steps(st - 1)
                        };
                        t.push(Action::Pass);
                        turns.push(t);
                    }
                    out.push(Script { board, gold: gold_first, move_number: 2, turns, config: serde_json::json!({"own_turns_between_occurrences": p, "rotation": rot, "prefix_turns": prefix, "padded": pad}) });
                }
            }
        }
    }
    out
}

/// Plain runner: all enabled oracles on every state of every script.
pub fn run_scripts(prop: &str, checks: u32, name: &str, scripts: &[Script]) -> FamilyResult {
    let t0 = Instant::now();
    let family = name.to_string();
    let stats = scripts
        .par_iter()
        .enumerate()
        .map(|(i, sc)| {
            let root = RootInfo { how: if i % 2 == 1 { RootHow::Parsed } else { RootHow::Constructed }, explorer: "E10", family: family.clone(), idx: i as u64, board: sc.board, gold: sc.gold, move_number: sc.move_number, config: sc.config.clone() };
            let mut ctx = Ctx::new(checks, prop, &root);
            let r = catch_unwind(AssertUnwindSafe(|| {
                let mut node = root_node(&root);
                turn_start_oracles(&mut ctx, &node, None);
                let last_turn = sc.turns.len() - 1;
                let mut trail: Vec<Node> = vec![node.clone()];
                'game: for (ti, turn) in sc.turns.iter().enumerate() {
                    for (si, want) in turn.iter().enumerate() {
                        ctx.stats.states += 1;
                        let succ = visit(&mut ctx, &node);
                        match succ.into_iter().find(|s| s.action == *want) {
                            Some(s) => {
                                node = s.node;
                                ctx.path.push(*want);
                                trail.push(node.clone());
                            }
                            None => {
                                if ti == last_turn && si + 1 == turn.len() {
                                    ctx.stats.add("e10_third_occurrence_withheld_at_the_end_of_the_second_lap", 1);
                                } else {
                                    ctx.stats.add("e10_scripts_abandoned", 1);
                                    if std::env::var("MC_DEBUG_SCRIPTS").is_ok() {
                                        eprintln!("abandoned script {} at turn {} step {} wanted {}", sc.config, ti, si, want);
                                    }
                                }
                                break 'game;
                            }
                        }
                    }
                }
                ctx.stats.max("e10_longest_history", node.hist.len() as u64);
                // Query order: above, every state was asked for its actions before the next one was produced.  Now the same
                // game is produced first (take_action only, from a fresh root object, nothing asked) and the states are
                // asked afterwards, LAST TO FIRST, each with all oracles of `visit`: lazily computed per-state data that
                // is shared with, or inherited from, a neighbouring state answers wrongly in this order only.
                if trail.len() > 1 && !report::stopped() {
                    let played: Vec<Action> = ctx.path.clone();
                    let mut cold: Vec<GameState> = vec![root_node(&root).gs];
                    for a in played.iter() {
                        let next = cold.last().unwrap().take_action(a);
                        cold.push(next);
                    }
                    for i in (0..trail.len().min(cold.len())).rev() {
                        let mut n = trail[i].clone();
                        n.gs = cold[i].clone();
                        ctx.path = played[..i].to_vec();
                        ctx.stats.add("e10_states_asked_after_the_whole_game_was_produced_last_to_first", 1);
                        let _ = visit(&mut ctx, &n);
                    }
                    ctx.path = played;
                }
            }));
            if r.is_err() {
                let q = ctx.query;
                ctx.fail(&format!("panic in the engine during `{}` on a reachable state", if q.is_empty() { "(harness code)" } else { q }), last_panic(), "returns normally".into());
            }
            ctx.stats.roots = 1;
            if i < 2 {
                ctx.stats.sample(i as u64, format!("script #{} {}:\n{}", i, sc.config, rm::diagram(&sc.board, sc.gold, sc.move_number)));
            }
            std::mem::take(&mut ctx.stats)
        })
        .reduce(Stats::default, Stats::merge);
    let abandoned = stats.counters.get("e10_scripts_abandoned").copied().unwrap_or(0);
    FamilyResult { explorer: "E10".into(), family, complete: !report::stopped() && abandoned == 0, note: if abandoned > 0 { format!("{} scripts could not be played to the end", abandoned) } else { String::new() }, stats, wall_s: t0.elapsed().as_secs_f64() }
}

pub const DISTANCE_NAME: &str = "E10 distance sweep: Gold E and Silver e return to their squares after exactly p own turns, p = 3..16 (rings of p squares, or p + 1 squares with one two-step turn), so every position recurs after exactly p own turns of its creator; two laps, third entry attempted; several rotations of the root, 0..3 irreversible prefix turns, with and without padding pieces";

// ---------------------------------------------------------------------------------------------------------------
// Drag-back games: a piece of one side (rabbit, cat or dog) walks up an edge file and the opponent's elephant drags it
// back, restoring its own square each time, until two positions of the walker (a2 and a3) have each ended a turn twice;
// the walker's side then burns three steps so that, on the last step of the turn, the pass, the step back AND the
// walker's own forward step are all withheld by the repetition rules (for a rabbit: no action is left at all, the
// side on move has lost).  Repetitions that need the OPPONENT's cooperation to recur - one-turn exploration, the
// fix-point games and the rings of E8/E10 (where every piece returns by itself) do not produce them.
// ---------------------------------------------------------------------------------------------------------------

fn transform_text(a: &str, mirror: bool, swap: bool) -> String {
    if a == "p" {
        return a.to_string();
    }
    let b = a.as_bytes();
    let mut f = b[0];
    let mut r = b[1];
    let mut d = b[2];
    if mirror {
        f = b'a' + (b'h' - f);
        d = match d {
            b'e' => b'w',
            b'w' => b'e',
            x => x,
        };
    }
    if swap {
        r = b'1' + (b'8' - r);
        d = match d {
            b'n' => b's',
            b's' => b'n',
            x => x,
        };
    }
    String::from_utf8(vec![f, r, d]).unwrap()
}

fn split_turns(actions: &[Action]) -> Vec<Vec<Action>> {
    let mut turns = vec![];
    let mut cur: Vec<Action> = vec![];
    for a in actions {
        cur.push(*a);
        if matches!(a, Action::Pass) || cur.len() == 4 {
            turns.push(std::mem::take(&mut cur));
        }
    }
    if !cur.is_empty() {
        turns.push(cur);
    }
    turns
}

pub fn dragback_scripts(thorough: bool) -> Vec<Script> {
    let lap_a = "d4w p a3e p c4w b3s b4s b3n b2w a2e b2e c2e b4w a4e b4e c4e d2w c2w b2w p";
    let lap_b = "d4w p a2e p c4w b4e c4e p b2w a2e b2w a2n";
    let lap_b_open = "d4w p a2e p c4w b4e c4e p";
    // after the final three steps one more action is asked for (the pass): it must be withheld, and asking for it makes
    // the runner evaluate every oracle on the state where all three candidates are withheld
    let fin = "b2w a2e b2w p";
    let games: Vec<(String, &str)> = vec![
        (format!("{} {} {} {} {}", lap_a, lap_b, lap_a, lap_b_open, fin), "two laps, then three burnt steps: pass, step back and forward step all withheld"),
        (format!("{} {} {} {} b2w p", lap_a, lap_b, lap_a, lap_b_open), "two laps, one step, then a pass into the third occurrence of the a2 position"),
        (format!("{} {} {}", lap_a, lap_b_open, fin), "one lap (nothing seen twice yet)"),
        (format!("{} {} {} {} b2w a2n p", lap_a, lap_b, lap_a, lap_b_open), "two laps, two steps, then a pass into the third occurrence of the a3 position"),
    ];
    let kinds: Vec<u8> = if thorough { vec![0, 1, 2, 3, 4] } else { vec![0, 1, 2] };
    let mut out = vec![];
    for (gi, (text, what)) in games.iter().enumerate() {
        for &kind in kinds.iter() {
            for mirror in [false, true] {
                for swap in [false, true] {
                    for mn in if thorough { vec![5usize, 996, 65_520] } else { vec![[5usize, 996, 65_520][(gi + kind as usize) % 3]] } {
                        // base: gold walker a3, silver e d4, silver r h8, silver to move
                        let mut board = [rm::EMPTY; 64];
                        let place = |name: &str| -> usize {
                            let t = transform_text(&format!("{}n", name), mirror, swap);
                            crate::e2::sq(&t[0..2])
                        };
                        board[place("a3")] = rm::cell(!swap, kind);
                        board[place("d4")] = rm::cell(swap, 5);
                        board[place("h8")] = rm::cell(swap, 0);
                        if kind != 0 {
                            // keep the walker's side from being eliminated: a rabbit of its own far away, blocked by nothing
                            board[place("h1")] = rm::cell(!swap, 0);
                        }
                        let acts: Vec<Action> = text.split_whitespace().map(|a| transform_text(a, mirror, swap).parse::<Action>().expect("script action parses")).collect();
                        out.push(Script { board, gold: swap, move_number: mn, turns: split_turns(&acts), config: serde_json::json!({"game": what, "walker_strength": kind, "mirrored_files": mirror, "colours_swapped_ranks_flipped": swap, "starting_move_number": mn}) });
                    }
                }
            }
        }
    }
    out
}

pub const DRAGBACK_NAME: &str = "E10 drag-back games: a rabbit / cat / dog walks a2-a3 on an edge file and the opponent's elephant drags it back to b2 and returns to d4, so that positions recur only with the opponent's cooperation; after two laps the walker's side burns steps until pass, step back and forward step are all third repetitions (rabbit: no action left - loss); 4 games x kinds x file mirror x colour swap";

// ---------------------------------------------------------------------------------------------------------------
// Collision games (C05-C07): the repetition rules must compare POSITIONS.  An implementation that remembers or compares
// only part of the engine's 64-bit position hash behaves identically on every structural scenario; it differs only on
// two different positions whose hashes agree on the compared bits.  The engine's own hash is public
// (`transposition_hash`), so such pairs are searched for here, exhaustively over a stated set of arrangements, for three
// 32-bit windows of the value (bits 0..32, 16..48, 32..64): every arrangement of Gold E M H D on the 30 non-trap squares
// of ranks 2-5 (657,720 arrangements; about 50 colliding pairs per window are expected).  For each pair (P, C) found a
// game is played in which P starts a turn twice and Gold then walks to C, ending a turn there with the same Silver
// placement: a position never seen before, whose turn-ending action must be offered.
// ---------------------------------------------------------------------------------------------------------------

fn engine_hash(b: &rm::Board, gold: bool) -> u64 {
    state_from_board(b, gold, 2).transposition_hash()
}

fn route(board: &rm::Board, from: usize, to: usize) -> Option<Vec<usize>> {
    // shortest path over empty non-trap squares (BFS); returns the squares after `from`, ending with `to`
    let mut prev = [usize::MAX; 64];
    let mut q = std::collections::VecDeque::new();
    prev[from] = from;
    q.push_back(from);
    while let Some(x) = q.pop_front() {
        if x == to {
            let mut p = vec![];
            let mut y = to;
            while y != from {
                p.push(y);
                y = prev[y];
            }
            p.reverse();
            return Some(p);
        }
        for d in 0..4 {
            if let Some(y) = rm::nb(x, d) {
                if prev[y] == usize::MAX && board[y] == rm::EMPTY && !rm::TRAPS.contains(&y) {
                    prev[y] = x;
                    q.push_back(y);
                }
            }
        }
    }
    None
}

pub fn collision_scripts(thorough: bool) -> (Vec<Script>, u64, u64) {
    let region: Vec<usize> = (0..64).filter(|&i| (3..=6).contains(&(i / 8)) && !rm::TRAPS.contains(&i)).collect();
    let kinds: [u8; 4] = [5, 4, 3, 2];
    let mut fixed = [rm::EMPTY; 64];
    fixed[crate::e2::sq("a1")] = rm::cell(true, 0);
    fixed[crate::e2::sq("a8")] = rm::cell(false, 0);
    fixed[crate::e2::sq("h8")] = rm::cell(false, 1);
    // per-(kind, square) hash features taken from the engine itself (one-piece differences against the fixed board)
    let h0 = engine_hash(&fixed, false);
    let mut feat = vec![[0u64; 64]; 4];
    for (k, &st) in kinds.iter().enumerate() {
        for &s in region.iter() {
            let mut b = fixed;
            b[s] = rm::cell(true, st);
            feat[k][s] = engine_hash(&b, false) ^ h0;
        }
    }
    let windows: [(u32, &str); 3] = [(0, "bits 0..32"), (16, "bits 16..48"), (32, "bits 32..64")];
    let mut maps: Vec<FxMap<u32, [u8; 4]>> = (0..3).map(|_| FxMap::default()).collect();
    let mut pairs: Vec<Vec<([u8; 4], [u8; 4])>> = vec![vec![]; 3];
    let mut arrangements = 0u64;
    for &a in region.iter() {
        for &b in region.iter() {
            if b == a {
                continue;
            }
            for &c in region.iter() {
                if c == a || c == b {
                    continue;
                }
                for &d in region.iter() {
                    if d == a || d == b || d == c {
                        continue;
                    }
                    arrangements += 1;
                    let h = feat[0][a] ^ feat[1][b] ^ feat[2][c] ^ feat[3][d];
                    let arr = [a as u8, b as u8, c as u8, d as u8];
                    for (wi, (shift, _)) in windows.iter().enumerate() {
                        let key = (h >> shift) as u32;
                        if let Some(prev) = maps[wi].get(&key) {
                            pairs[wi].push((*prev, arr));
                        } else {
                            maps[wi].insert(key, arr);
                        }
                    }
                }
            }
        }
    }
    drop(maps);
    let place = |arr: &[u8; 4]| -> rm::Board {
        let mut b = fixed;
        for k in 0..4 {
            b[arr[k] as usize] = rm::cell(true, kinds[k]);
        }
        b
    };
    let mut out = vec![];
    let mut found = 0u64;
    let per_window = if thorough { 12 } else { 4 };
    let perms: Vec<[usize; 4]> = {
        let mut v = vec![];
        for a in 0..4 {
            for b in 0..4 {
                for c in 0..4 {
                    for d in 0..4 {
                        if a != b && a != c && a != d && b != c && b != d && c != d {
                            v.push([a, b, c, d]);
                        }
                    }
                }
            }
        }
        v
    };
    for (wi, (shift, wname)) in windows.iter().enumerate() {
        let mut made = 0;
        for (p, c) in pairs[wi].iter() {
            let (bp, bc) = (place(p), place(c));
            // the pair must collide under the engine's real hash of the full positions (the feature table is only a guide)
            let x = engine_hash(&bp, false) ^ engine_hash(&bc, false);
            if x == 0 || (x >> shift) as u32 != 0 {
                continue;
            }
            found += 1;
            if made >= per_window {
                continue;
            }
            // route P -> C piece by piece, in some order of the pieces
            let mut steps: Option<Vec<Action>> = None;
            'perm: for perm in perms.iter() {
                let mut b = bp;
                let mut acts = vec![];
                for &k in perm.iter() {
                    let (from, to) = (p[k] as usize, c[k] as usize);
                    if from == to {
                        continue;
                    }
                    let path = match route(&b, from, to) {
                        Some(x) => x,
                        None => continue 'perm,
                    };
                    let mut at = from;
                    for &nx in path.iter() {
                        acts.push(action_of(at, dir_between(at, nx)));
                        b[nx] = b[at];
                        b[at] = rm::EMPTY;
                        at = nx;
                    }
                }
                steps = Some(acts);
                break;
            }
            let steps = match steps {
                Some(s) if s.len() >= 2 => s,
                _ => continue,
            };
            // a quiet out-and-back step of the elephant for the second occurrence of P
            let e_sq = p[0] as usize;
            let out_back = (0..4).find_map(|d| rm::nb(e_sq, d).filter(|&y| bp[y] == rm::EMPTY && !rm::TRAPS.contains(&y) && (3..=6).contains(&(y / 8))).map(|y| (action_of(e_sq, d), action_of(y, (d + 2) % 4))));
            let (step_out, step_back) = match out_back {
                Some(x) => x,
                None => continue,
            };
            let (h8, h7) = (crate::e2::sq("h8"), crate::e2::sq("h7"));
            let cat_down = vec![action_of(h8, 2), Action::Pass];
            let cat_up = vec![action_of(h7, 0), Action::Pass];
            for end_with_fourth_step in [false, true] {
                let n = steps.len();
                // an even number k of gold turns (the cat is back on h8 after every second one), each with 1..=4 steps
                let mut k = (n + 3) / 4;
                if k % 2 == 1 {
                    k += 1;
                }
                if n < k {
                    continue;
                }
                let last = if end_with_fourth_step { 4 } else { ((n - (k - 1)).min(3)).max(1) };
                if n < last + (k - 1) || n - last > 4 * (k - 1) {
                    continue;
                }
                // distribute n - last steps over the first k - 1 turns
                let mut sizes = vec![1usize; k - 1];
                let mut rest = n - last - (k - 1);
                for s in sizes.iter_mut() {
                    let add = rest.min(3);
                    *s += add;
                    rest -= add;
                }
                if rest != 0 {
                    continue;
                }
                sizes.push(last);
                let mut turns = vec![cat_down.clone(), vec![step_out, Action::Pass], cat_up.clone(), vec![step_back, Action::Pass]];
                let mut at = 0;
                for (ti, &sz) in sizes.iter().enumerate() {
                    turns.push(if ti % 2 == 0 { cat_down.clone() } else { cat_up.clone() });
                    let mut t: Vec<Action> = steps[at..at + sz].to_vec();
                    at += sz;
                    if sz < 4 {
                        t.push(Action::Pass);
                    }
                    turns.push(t);
                }
                out.push(Script { board: bp, gold: false, move_number: 2, turns, config: serde_json::json!({"window": wname, "P": rm::diagram(&bp, false, 2), "C": rm::diagram(&bc, false, 2), "gold_steps_from_P_to_C": n, "last_turn_ends_with": if end_with_fourth_step { "a fourth step" } else { "a pass" }}) });
            }
            made += 1;
        }
    }
    (out, arrangements, found)
}

pub const COLLISION_NAME: &str = "E10 collision games: pairs of different positions whose engine hashes agree on a 32-bit window (bits 0..32, 16..48, 32..64), found by complete enumeration of the 657,720 arrangements of Gold E M H D on the 30 non-trap squares of ranks 2-5; P starts a turn twice, Gold then walks to C and ends a turn there (by a pass and by a fourth step): never seen before, must be offered";

// ---------------------------------------------------------------------------------------------------------------
// Games continued past a decided position (C04: "for EVERY position at the start of a turn"): the position is decided by
// a goal or by the loss of all rabbits at the root; both sides shuffle an elephant out and back without a capture, so the
// same decided position stands a second and a third time - the result must be the same every time, whatever the history.
// ---------------------------------------------------------------------------------------------------------------
pub fn decided_scripts() -> Vec<Script> {
    let mut out = vec![];
    // (gold pieces, silver pieces) in base orientation, Silver to move; Gold E d2 and Silver e e7 do the shuffling
    let bases: Vec<(&str, Vec<(&str, bool, u8)>)> = vec![
        ("Gold rabbit on its goal square a8", vec![("a8", true, 0), ("d2", true, 5), ("e7", false, 5), ("h5", false, 0)]),
        ("Silver has no rabbits", vec![("a2", true, 0), ("d2", true, 5), ("e7", false, 5), ("h5", false, 1)]),
        ("Gold has no rabbits", vec![("a2", true, 1), ("d2", true, 5), ("e7", false, 5), ("h5", false, 0)]),
        ("Silver rabbit on its goal square h1 and Gold rabbit on a8", vec![("a8", true, 0), ("h1", false, 0), ("d2", true, 5), ("e7", false, 5)]),
        ("neither side has rabbits", vec![("a2", true, 1), ("d2", true, 5), ("e7", false, 5), ("h5", false, 1)]),
    ];
    let lap = "e7s p d2n p e6n p d3s p";
    for (what, pieces) in bases.iter() {
        for mirror in [false, true] {
            for swap in [false, true] {
                let mut board = [rm::EMPTY; 64];
                for (name, gold, st) in pieces.iter() {
                    let t = transform_text(&format!("{}n", name), mirror, swap);
                    board[crate::e2::sq(&t[0..2])] = rm::cell(*gold != swap, *st);
                }
                // two laps (the third occurrence is refused by the repetition rule: asked for, expected to be withheld)
                let text = format!("{} {}", lap, lap);
                let acts: Vec<Action> = text.split_whitespace().map(|a| transform_text(a, mirror, swap).parse::<Action>().expect("script action parses")).collect();
                out.push(Script { board, gold: swap, move_number: 40, turns: split_turns(&acts), config: serde_json::json!({"decided_by": what, "mirrored_files": mirror, "colours_swapped_ranks_flipped": swap}) });
            }
        }
    }
    out
}

pub const DECIDED_NAME: &str = "E10 games continued past a decided position: decided at the root by goal / loss of all rabbits (5 cases x file mirror x colour swap); both elephants step out and back, the same decided position stands a second time (and a third is attempted): every turn start on the way is compared with the official order";

// ---------------------------------------------------------------------------------------------------------------
// Everything withheld with TWO mobile pieces: Gold E shuttles a1-a2-a3 (a1 is a dead end beside Silver e b1), Gold D
// shuttles h1-h2 (Silver d g1 holds it), Gold R c1 is frozen, Silver m shuttles e7-e6.  After eight turns each, "E a1,
// D h1" and "E a1, D h2" have both ended a Gold turn twice; Gold then burns a2s a1n a2s: the pass and the step of the
// UNMOVED dog (h1n) are third repetitions, a1n restores the start of the turn - nothing is left, Gold has lost.
// ---------------------------------------------------------------------------------------------------------------
pub fn two_piece_withheld_scripts() -> Vec<Script> {
    let game = "a2s p e7s p a1n h1n p e6n p a2s p e7s p a1n a2n h2s p e6n p a3s a2s p e7s p a1n h1n p e6n p a2s p e7s p a1n h2s p e6n p";
    let fins = [("three burnt steps: everything withheld", "a2s a1n a2s p"), ("one burnt step, then the dog's third repetition is asked for", "a2s h1n p"), ("two burnt steps", "a2s a1n p")];
    let pieces: [(&str, bool, u8); 7] = [("a2", true, 5), ("b1", false, 5), ("c1", true, 0), ("g1", false, 2), ("h1", true, 2), ("a8", false, 0), ("e7", false, 4)];
    let mut out = vec![];
    for (what, fin) in fins.iter() {
        for mirror in [false, true] {
            for swap in [false, true] {
                let mut board = [rm::EMPTY; 64];
                for (name, gold, st) in pieces.iter() {
                    let t = transform_text(&format!("{}n", name), mirror, swap);
                    board[crate::e2::sq(&t[0..2])] = rm::cell(*gold != swap, *st);
                }
                let text = format!("{} {}", game, fin);
                let acts: Vec<Action> = text.split_whitespace().map(|a| transform_text(a, mirror, swap).parse::<Action>().expect("script action parses")).collect();
                out.push(Script { board, gold: !swap, move_number: 2, turns: split_turns(&acts), config: serde_json::json!({"game": what, "mirrored_files": mirror, "colours_swapped_ranks_flipped": swap}) });
            }
        }
    }
    out
}

pub const TWO_PIECE_NAME: &str = "E10 everything withheld with two mobile pieces: Gold E a1-a2-a3 and D h1-h2 shuttle, Silver m e7-e6; two different positions end a Gold turn twice, then Gold burns steps until the pass and the step of the unmoved dog are third repetitions and the only other step restores the start of the turn (loss); 3 endings x file mirror x colour swap";
