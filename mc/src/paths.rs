//! Scripted games: long / structured histories that neither fix-point exploration nor one-turn exploration reaches.
//! A script is one path; the runners (plain: every enabled oracle of `explore::visit`; lock-step: `sym::compare`)
//! evaluate ALL offered actions of every state on it, so turn-ending actions that would repeat a position a third time
//! must be withheld wherever they come up, and nothing else may be.
use crate::explore::*;
use crate::glue::*;
use crate::refmodel as rm;
use crate::report::{self, FamilyResult, Stats};
use arimaa_engine_step::*;
use rayon::prelude::*;
use std::panic::{catch_unwind, AssertUnwindSafe};
use std::time::Instant;

#[derive(Clone)]
pub struct Script {
    pub board: rm::Board,
    pub gold: bool,
    pub move_number: usize,
    /// the turns, each a list of actions ending with a pass or a fourth step
    pub turns: Vec<Vec<Action>>,
    pub config: serde_json::Value,
}

fn dir_between(a: usize, b: usize) -> usize {
    // 0 N, 1 E, 2 S, 3 W in the numbering of glue::action_of
    if b + 8 == a {
        0
    } else if b == a + 1 {
        1
    } else if b == a + 8 {
        2
    } else {
        3
    }
}

/// clockwise perimeter of the 2 x k rectangle whose top-left corner is (file 0, row `top`)
fn ring(top: usize, k: usize) -> Vec<usize> {
    let mut v = vec![];
    for f in 0..k {
        v.push(top * 8 + f);
    }
    for f in (0..k).rev() {
        v.push((top + 1) * 8 + f);
    }
    v
}

/// One walker: a piece that returns to its square after exactly `p` own turns: ring of p squares (p even) or of p + 1
/// squares with one two-step turn (p odd).
struct Walker {
    ring: Vec<usize>,
    p: usize,
}
impl Walker {
    fn new(top: usize, p: usize) -> Walker {
        let l = if p % 2 == 0 { p } else { p + 1 };
        Walker { ring: ring(top, l / 2), p }
    }
    /// ring index of the piece after `t` own turns
    fn index_after(&self, t: usize) -> usize {
        let j = t % self.p;
        j % self.ring.len()
    }
    /// the steps of own turn number `t` (0-based)
    fn steps(&self, t: usize) -> Vec<Action> {
        let l = self.ring.len();
        let j = t % self.p;
        let mut v = vec![];
        let mut at = j;
        let n = if self.p % 2 == 1 && j == self.p - 1 { 2 } else { 1 };
        for _ in 0..n {
            let (a, b) = (self.ring[at % l], self.ring[(at + 1) % l]);
            v.push(action_of(a, dir_between(a, b)));
            at += 1;
        }
        v
    }
}

/// Distance sweep: Gold E and Silver e both return to their squares after exactly p own turns (p = 3..=16), so every
/// position of the game recurs after exactly p own turns of the side that created it; two laps, third entry attempted.
/// `rot`: the root is the position after `rot` turns of the walk; `prefix`: irreversible turns by two cats before the walk
/// (shifts where the cycle falls in the history); `pad`: remaining pieces on the free files of the home ranks.
pub fn distance_scripts(thorough: bool) -> Vec<Script> {
    let mut out = vec![];
    for p in 3..=16usize {
        let (g, s) = (Walker::new(6, p), Walker::new(0, p));
        let width = g.ring.len() / 2;
        let rots: Vec<usize> = if thorough { (0..2 * p).collect() } else { vec![0, 1, p, 2 * p - 1] };
        for &rot in rots.iter() {
            for prefix in [0usize, 1, 2, 3] {
                for pad in [false, true] {
                    if pad && width > 5 {
                        continue;
                    }
                    if !thorough && pad && (prefix == 1 || prefix == 3) {
                        continue;
                    }
                    let gold_first = rot % 2 == 0;
                    let (g0, s0) = ((rot + 1) / 2, rot / 2);
                    let mut board = [rm::EMPTY; 64];
                    board[g.ring[g.index_after(g0)]] = rm::cell(true, 5);
                    board[s.ring[s.index_after(s0)]] = rm::cell(false, 5);
                    board[crate::e2::sq("h3")] = rm::cell(true, 0);
                    board[crate::e2::sq("h6")] = rm::cell(false, 0);
                    let gold_cat: Vec<usize> = (0..7).map(|f| 4 * 8 + f).collect();
                    let silver_cat: Vec<usize> = (0..7).map(|f| 3 * 8 + 7 - f).collect();
                    board[gold_cat[0]] = rm::cell(true, 1);
                    board[silver_cat[0]] = rm::cell(false, 1);
                    if pad {
                        let army: [u8; 13] = [4, 3, 3, 2, 2, 1, 0, 0, 0, 0, 0, 0, 0];
                        for gold in [true, false] {
                            let mut n = 0;
                            for f in (width + 1)..8 {
                                for row in if gold { [6usize, 7] } else { [1usize, 0] } {
                                    if n < army.len() && board[row * 8 + f] == rm::EMPTY {
                                        board[row * 8 + f] = rm::cell(gold, army[n]);
                                        n += 1;
                                    }
                                }
                            }
                        }
                    }
                    let mut turns: Vec<Vec<Action>> = vec![];
                    let (mut gc, mut sc) = (0usize, 0usize);
                    let (mut gt, mut st) = (g0, s0);
                    let total = prefix + 4 * p;
                    for turn in 0..total {
                        let gold = (turn % 2 == 0) == gold_first;
                        let mut t: Vec<Action> = if turn < prefix {
                            if gold {
                                gc += 1;
                                vec![action_of(gold_cat[gc - 1], 1)]
                            } else {
                                sc += 1;
                                vec![action_of(silver_cat[sc - 1], 3)]
                            }
                        } else if gold {
                            gt += 1;
                            g.steps(gt - 1)
                        } else {
                            st += 1;
                            s.steps(st - 1)
                        };
                        t.push(Action::Pass);
                        turns.push(t);
                    }
                    out.push(Script { board, gold: gold_first, move_number: 2, turns, config: serde_json::json!({"own_turns_between_occurrences": p, "rotation": rot, "prefix_turns": prefix, "padded": pad}) });
                }
            }
        }
    }
    out
}

/// Plain runner: all enabled oracles on every state of every script.
pub fn run_scripts(prop: &str, checks: u32, name: &str, scripts: &[Script]) -> FamilyResult {
    let t0 = Instant::now();
    let family = name.to_string();
    let stats = scripts
        .par_iter()
        .enumerate()
        .map(|(i, sc)| {
            let root = RootInfo { how: if i % 2 == 1 { RootHow::Parsed } else { RootHow::Constructed }, explorer: "E10", family: family.clone(), idx: i as u64, board: sc.board, gold: sc.gold, move_number: sc.move_number, config: sc.config.clone() };
            let mut ctx = Ctx::new(checks, prop, &root);
            let r = catch_unwind(AssertUnwindSafe(|| {
                let mut node = root_node(&root);
                turn_start_oracles(&mut ctx, &node, None);
                let last_turn = sc.turns.len() - 1;
                'game: for (ti, turn) in sc.turns.iter().enumerate() {
                    for (si, want) in turn.iter().enumerate() {
                        ctx.stats.states += 1;
                        let succ = visit(&mut ctx, &node);
                        match succ.into_iter().find(|s| s.action == *want) {
                            Some(s) => {
                                node = s.node;
                                ctx.path.push(*want);
                            }
                            None => {
                                if ti == last_turn && si + 1 == turn.len() {
                                    ctx.stats.add("e10_third_occurrence_withheld_at_the_end_of_the_second_lap", 1);
                                } else {
                                    ctx.stats.add("e10_scripts_abandoned", 1);
                                }
                                break 'game;
                            }
                        }
                    }
                }
                ctx.stats.max("e10_longest_history", node.hist.len() as u64);
            }));
            if r.is_err() {
                let q = ctx.query;
                ctx.fail(&format!("panic in the engine during `{}` on a reachable state", if q.is_empty() { "(harness code)" } else { q }), last_panic(), "returns normally".into());
            }
            ctx.stats.roots = 1;
            if i < 2 {
                ctx.stats.sample(i as u64, format!("script #{} {}:\n{}", i, sc.config, rm::diagram(&sc.board, sc.gold, sc.move_number)));
            }
            std::mem::take(&mut ctx.stats)
        })
        .reduce(Stats::default, Stats::merge);
    let abandoned = stats.counters.get("e10_scripts_abandoned").copied().unwrap_or(0);
    FamilyResult { explorer: "E10".into(), family, complete: !report::stopped() && abandoned == 0, note: if abandoned > 0 { format!("{} scripts could not be played to the end", abandoned) } else { String::new() }, stats, wall_s: t0.elapsed().as_secs_f64() }
}

pub const DISTANCE_NAME: &str = "E10 distance sweep: Gold E and Silver e return to their squares after exactly p own turns, p = 3..16 (rings of p squares, or p + 1 squares with one two-step turn), so every position recurs after exactly p own turns of its creator; two laps, third entry attempted; several rotations of the root, 0..3 irreversible prefix turns, with and without padding pieces";
