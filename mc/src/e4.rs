//! E4 — exhaustive string enumeration for the parsers (C15, C16), plus round trips over all values.
use crate::refmodel as rm;
use crate::explore::last_panic;
use crate::report::{self, FamilyResult, Stats, Violation};
use arimaa_engine_step::*;
use rayon::prelude::*;
use std::panic::{catch_unwind, AssertUnwindSafe};
use std::time::Instant;

/// Alphabet chosen from the decision points of the parsers: file letters and their neighbours in ASCII, upper case,
/// rank digits and their neighbours, direction letters, piece letters, pass, blanks, signs, NUL, and non-ASCII
/// characters of 2, 3 and 4 UTF-8 bytes — including ones whose `as u8` truncation lands on 'a'..'h' (š U+0161 -> 'a',
/// ţ U+0163 -> 'c'), a non-ASCII decimal digit (١ U+0661), a full-width digit (１ U+FF11) and 𝟏 (U+1D7CF).
pub const SIGMA: [char; 45] = [
    'a', 'b', 'h', 'i', '`', 'g', 'A', 'H', '0', '1', '2', '8', '9', 'n', 'e', 's', 'w', 'N', 'p', 'P', 'r', 'R', 'm', 'M', 'E', 'c', 'C', 'd',
    'D', 'x', ' ', '\n', '+', '-', '\0', 'š', 'ţ', '١', '１', 'é', '€', '𝟏', 'ň', 'Ｒ', 'ｅ',
];

fn viol(prop: &str, family: &str, idx: u64, input: &str, parser: &str, what: &str, observed: String, expected: String) {
    report::report(Violation {
        property: prop.to_string(),
        explorer: "E4".into(),
        family: family.to_string(),
        root_idx: idx,
        root: format!("{}::from_str({:?})", parser, input),
        config: serde_json::json!({"parser": parser, "input": input}),
        actions: vec![],
        what: what.to_string(),
        observed,
        expected,
    });
}

fn nth_string(mut idx: u64, len: usize, sigma: &[char]) -> String {
    let n = sigma.len() as u64;
    let mut s = String::new();
    for _ in 0..len {
        s.push(sigma[(idx % n) as usize]);
        idx /= n;
    }
    s
}

fn check_one<T: std::str::FromStr + std::fmt::Display>(prop: &str, fam: &str, idx: u64, s: &str, parser: &str, upper_piece_ok: bool, st: &mut Stats) {
    let r = catch_unwind(AssertUnwindSafe(|| s.parse::<T>()));
    st.transitions += 1;
    match r {
        Err(_) => viol(prop, fam, idx, s, parser, &format!("{}::from_str panics", parser), last_panic(), "Ok or Err".into()),
        Ok(Ok(v)) => {
            let printed = v.to_string();
            let canonical = printed == s || (upper_piece_ok && s.chars().count() == 1 && s.to_lowercase() == printed && "EMHDCR".contains(s));
            st.add("e4_accepted", 1);
            if !canonical {
                viol(prop, fam, idx, s, parser, &format!("{}::from_str accepts text that is not the printed form of its result", parser), format!("Ok({})", printed), "Err".into());
            }
        }
        Ok(Err(_)) => {}
    }
}

/// All strings of length 0..=max_len over SIGMA, through the four notation parsers.
pub fn c16_strings(prop: &str, max_len: usize) -> FamilyResult {
    let t0 = Instant::now();
    let fam = format!("E4 all strings of length 0..={} over a {}-symbol alphabet x {{Action, Square, Piece, Direction}}::from_str", max_len, SIGMA.len());
    let mut total = Stats::default();
    for len in 0..=max_len {
        let n = (SIGMA.len() as u64).pow(len as u32);
        let fam2 = fam.clone();
        let st = (0..n)
            .into_par_iter()
            .fold(Stats::default, |mut st, idx| {
                if report::stopped() {
                    return st;
                }
                let s = nth_string(idx, len, &SIGMA);
                check_one::<Action>(prop, &fam2, idx, &s, "Action", true, &mut st);
                check_one::<Square>(prop, &fam2, idx, &s, "Square", false, &mut st);
                check_one::<Piece>(prop, &fam2, idx, &s, "Piece", true, &mut st);
                check_one::<Direction>(prop, &fam2, idx, &s, "Direction", false, &mut st);
                st.states += 1;
                st
            })
            .reduce(Stats::default, Stats::merge);
        total = total.merge(st);
    }
    total.roots = total.states;
    total.sample(0, format!("{:?}", (0..6).map(|i| nth_string(1000 + 977 * i, 3, &SIGMA)).collect::<Vec<_>>()));
    FamilyResult { explorer: "E4".into(), family: fam, complete: !report::stopped(), note: String::new(), stats: total, wall_s: t0.elapsed().as_secs_f64() }
}

/// Long inputs, enumerated by structure: a head (a value's printed form, or nothing) + a separator + a tail in which ONE
/// wide character (2, 3 or 4 UTF-8 bytes) stands at every byte offset 0..=`max_tail` of a run of filler characters, the
/// run continuing to `max_tail` + 8 bytes.  Whatever a parser does with text beyond the notation (skip it, quote it in an
/// error message, truncate it) must not panic and must not accept it.
pub fn c16_long_tails(prop: &str, max_tail: usize) -> FamilyResult {
    let t0 = Instant::now();
    let fam = format!("E4 long inputs: {{action, square, piece, direction forms, empty}} + separator + filler run with one 2/3/4-byte character at every byte offset 0..={}", max_tail);
    let heads = ["", "a1n", "h8w", "e7s", "p", "R", "e", "d4", "n", "a1", "h8e"];
    let seps = ["", " ", "\t", ",", "  "];
    let fillers = ['x', ' ', '1'];
    let wides = ['é', '日', '😀', '٣'];
    let mut jobs: Vec<String> = vec![];
    for h in heads.iter() {
        for sep in seps.iter() {
            for f in fillers.iter() {
                for w in wides.iter() {
                    for k in 0..=max_tail {
                        let mut s = String::with_capacity(max_tail + 24);
                        s.push_str(h);
                        s.push_str(sep);
                        for _ in 0..k {
                            s.push(*f);
                        }
                        s.push(*w);
                        while s.len() < h.len() + sep.len() + max_tail + 8 {
                            s.push(*f);
                        }
                        jobs.push(s);
                    }
                }
            }
        }
    }
    let fam2 = fam.clone();
    let mut st = jobs
        .par_iter()
        .enumerate()
        .fold(Stats::default, |mut st, (i, s)| {
            if report::stopped() {
                return st;
            }
            check_one::<Action>(prop, &fam2, i as u64, s, "Action", true, &mut st);
            check_one::<Square>(prop, &fam2, i as u64, s, "Square", false, &mut st);
            check_one::<Piece>(prop, &fam2, i as u64, s, "Piece", true, &mut st);
            check_one::<Direction>(prop, &fam2, i as u64, s, "Direction", false, &mut st);
            st.states += 1;
            st
        })
        .reduce(Stats::default, Stats::merge);
    st.roots = st.states;
    st.sample(0, format!("{:?}", jobs.iter().step_by(jobs.len() / 3 + 1).map(|s| s.chars().take(24).collect::<String>()).collect::<Vec<_>>()));
    FamilyResult { explorer: "E4".into(), family: fam, complete: !report::stopped(), note: String::new(), stats: st, wall_s: t0.elapsed().as_secs_f64() }
}

/// Aliasing code points: every printed token (256 steps, pass, 64 squares, 12 piece letters, 4 directions) with ONE
/// character replaced by every code point that agrees with it on the low 7 or 8 bits (hence also on the low 16: all 16
/// supplementary planes), and with ALL characters moved to the same plane.  A parser that packs, truncates or masks
/// characters (`as u8`, 16 bits per character, `& 0x7f`) accepts some of these; none is the printed form of anything.
pub fn c16_aliases(prop: &str) -> FamilyResult {
    let t0 = Instant::now();
    let fam = "E4 aliasing code points: every printed token with one character replaced by every code point equal to it modulo 128 or 256 (all planes up to U+10FFFF), and with all characters shifted by the same multiple of U+10000".to_string();
    let mut tokens: Vec<String> = vec!["p".into()];
    for f in b'a'..=b'h' {
        for r in b'1'..=b'8' {
            tokens.push(format!("{}{}", f as char, r as char));
            for d in ['n', 'e', 's', 'w'] {
                tokens.push(format!("{}{}{}", f as char, r as char, d));
            }
        }
    }
    for c in "EMHDCRemhdcrnesw".chars() {
        tokens.push(c.to_string());
    }
    let fam2 = fam.clone();
    let mut st = tokens
        .par_iter()
        .enumerate()
        .fold(Stats::default, |mut st, (ti, tok)| {
            if report::stopped() {
                return st;
            }
            let chars: Vec<char> = tok.chars().collect();
            let mut run = |s: &str, st: &mut Stats| {
                check_one::<Action>(prop, &fam2, ti as u64, s, "Action", true, st);
                check_one::<Square>(prop, &fam2, ti as u64, s, "Square", false, st);
                check_one::<Piece>(prop, &fam2, ti as u64, s, "Piece", true, st);
                check_one::<Direction>(prop, &fam2, ti as u64, s, "Direction", false, st);
                st.states += 1;
            };
            for pos in 0..chars.len() {
                let c = chars[pos] as u32;
                let mut cp = (c & 0x7f) + 0x80;
                while cp <= 0x10_ffff {
                    if let Some(ch) = char::from_u32(cp) {
                        let mut v = chars.clone();
                        v[pos] = ch;
                        let s: String = v.iter().collect();
                        run(&s, &mut st);
                    }
                    cp += 0x80;
                }
            }
            for plane in 1..=16u32 {
                let s: String = chars.iter().map(|&ch| char::from_u32(ch as u32 + plane * 0x1_0000).unwrap()).collect();
                run(&s, &mut st);
            }
            st
        })
        .reduce(Stats::default, Stats::merge);
    st.roots = tokens.len() as u64;
    st.sample(0, format!("{:?}", ["a1\u{1006e}", "\u{10061}1n", "a\u{131}n", "\u{e1}1"]));
    FamilyResult { explorer: "E4".into(), family: fam, complete: !report::stopped(), note: String::new(), stats: st, wall_s: t0.elapsed().as_secs_f64() }
}

/// Round trips over all values and the square/index/bit conversions.
pub fn c16_values(prop: &str) -> FamilyResult {
    let t0 = Instant::now();
    let fam = "E4 all 263 actions, 64 squares, 6 pieces, 4 directions: print/parse round trip; square<->index<->bit conversions".to_string();
    let mut st = Stats::default();
    let r = catch_unwind(AssertUnwindSafe(|| {
        let mut st = Stats::default();
        let pieces = crate::glue::PIECES;
        let dirs = crate::glue::DIRS;
        let mut actions: Vec<Action> = vec![Action::Pass];
        for p in pieces.iter() {
            actions.push(Action::Place(*p));
        }
        for i in 0..64u8 {
            for d in dirs.iter() {
                actions.push(Action::Move(Square::from_index(i), *d));
            }
        }
        for (i, a) in actions.iter().enumerate() {
            let s = a.to_string();
            st.states += 1;
            st.transitions += 1;
            match s.parse::<Action>() {
                Ok(b) if b == *a => {}
                other => viol(prop, &fam, i as u64, &s, "Action", "printed action does not parse back to the same value", format!("{:?}", other.map(|x| x.to_string()).map_err(|e| e.to_string())), s.clone()),
            }
        }
        st.add("c16_action_values", actions.len() as u64);
        for p in pieces.iter() {
            let s = p.to_string();
            st.states += 1;
            st.transitions += 1;
            if s.parse::<Piece>().ok() != Some(*p) || s.to_uppercase().parse::<Piece>().ok() != Some(*p) {
                viol(prop, &fam, 0, &s, "Piece", "printed piece does not parse back", String::new(), s.clone());
            }
        }
        for d in dirs.iter() {
            let s = d.to_string();
            st.states += 1;
            st.transitions += 1;
            if s.parse::<Direction>().ok() != Some(*d) {
                viol(prop, &fam, 0, &s, "Direction", "printed direction does not parse back", String::new(), s.clone());
            }
        }
        let exp_dir = ['n', 'e', 's', 'w'];
        for (k, d) in dirs.iter().enumerate() {
            if d.to_string() != exp_dir[k].to_string() {
                viol(prop, &fam, 0, &d.to_string(), "Direction", "direction letter", d.to_string(), exp_dir[k].to_string());
            }
        }
        for i in 0..64usize {
            st.states += 1;
            st.transitions += 1;
            let sq = Square::from_index(i as u8);
            let name = format!("{}{}", (b'a' + (i % 8) as u8) as char, 8 - i / 8);
            let mut bad: Vec<String> = vec![];
            if sq.to_string() != name {
                bad.push(format!("prints {} not {}", sq, name));
            }
            if sq.index() != i {
                bad.push(format!("index() {}", sq.index()));
            }
            if sq.as_bit_board() != 1u64 << i {
                bad.push(format!("as_bit_board {:#x}", sq.as_bit_board()));
            }
            if Square::from_bit_board(1u64 << i) != sq {
                bad.push("from_bit_board".into());
            }
            if Square::new(sq.column_char(), sq.row() as usize) != sq {
                bad.push("new(column_char,row)".into());
            }
            if sq.column_char() != (b'a' + (i % 8) as u8) as char || sq.row() as usize != 8 - i / 8 {
                bad.push("column_char/row".into());
            }
            if name.parse::<Square>().ok() != Some(sq) {
                bad.push("parse(name)".into());
            }
            if map_bit_board_to_squares(1u64 << i) != vec![sq] {
                bad.push("map_bit_board_to_squares(single)".into());
            }
            if !bad.is_empty() {
                viol(prop, &fam, i as u64, &name, "Square", "square conversions are not mutually inverse / consistent with file-rank text", bad.join("; "), name.clone());
            }
        }
        // map_bit_board_to_squares on multi-bit boards: every pair of squares
        for i in 0..64u8 {
            for j in (i + 1)..64 {
                st.transitions += 1;
                let v = map_bit_board_to_squares((1u64 << i) | (1u64 << j));
                if v != vec![Square::from_index(i), Square::from_index(j)] {
                    viol(prop, &fam, i as u64, &format!("bits {} {}", i, j), "map_bit_board_to_squares", "two-bit board does not map to its two squares", format!("{:?}", v), String::new());
                }
            }
        }
        st.sample(0, format!("{:?}", actions.iter().take(12).map(|a| a.to_string()).collect::<Vec<_>>()));
        st
    }));
    match r {
        Ok(s) => st = s,
        Err(_) => viol(prop, &fam, 0, "(values)", "value round trip", "panic during value round trips", last_panic(), "no panic".into()),
    }
    st.roots = st.states;
    FamilyResult { explorer: "E4".into(), family: fam, complete: !report::stopped(), note: String::new(), stats: st, wall_s: t0.elapsed().as_secs_f64() }
}

// ---------------- C15: GameState::from_str on arbitrary text ----------------

pub const SIGMA15: [char; 11] = ['|', 'R', 'r', 'x', ' ', '\n', '2', 'g', 's', 'é', '١'];

fn parse_state_no_panic(prop: &str, fam: &str, idx: u64, s: &str, st: &mut Stats) {
    let r = catch_unwind(AssertUnwindSafe(|| s.parse::<GameState>()));
    st.transitions += 1;
    st.states += 1;
    match r {
        Err(_) => viol(prop, fam, idx, s, "GameState", "GameState::from_str panics", last_panic(), "Ok or Err".into()),
        Ok(Ok(_)) => st.add("e4_accepted", 1),
        Ok(Err(_)) => {
            st.add("e4_rejected", 1);
            canary(prop, fam, idx, s, st);
        }
    }
}

/// After a REJECTED text the very next parse on the same thread must be unaffected: a fixed diagram is parsed and the
/// result compared (==, hash) with the same position built without the parser.  Parsers that keep scratch state between
/// calls (buffers, lazily compiled tables) leak it exactly on error paths.
fn canary(prop: &str, fam: &str, idx: u64, rejected: &str, st: &mut Stats) {
    let mut b = [rm::EMPTY; 64];
    b[crate::e2::sq("d4")] = rm::cell(true, 5);
    b[crate::e2::sq("h1")] = rm::cell(true, 0);
    b[crate::e2::sq("a8")] = rm::cell(false, 0);
    b[crate::e2::sq("e5")] = rm::cell(false, 2);
    let text = rm::diagram(&b, false, 7);
    let want = crate::glue::state_from_board(&b, false, 7);
    st.add("c15_canary_parses_after_a_rejected_text", 1);
    match catch_unwind(AssertUnwindSafe(|| text.parse::<GameState>())) {
        Ok(Ok(g)) if g == want && g.transposition_hash() == want.transposition_hash() && g.to_string() == want.to_string() => {}
        Ok(Ok(g)) => viol(prop, fam, idx, rejected, "GameState", "C15: after this text was rejected, the next from_str on the same thread returns a different state than the text denotes", g.to_string(), want.to_string()),
        Ok(Err(_)) => viol(prop, fam, idx, rejected, "GameState", "C15: after this text was rejected, the next from_str on the same thread rejects a valid diagram", "Err".into(), want.to_string()),
        Err(_) => viol(prop, fam, idx, rejected, "GameState", "C15: after this text was rejected, the next from_str on the same thread panics", last_panic(), want.to_string()),
    }
}

pub fn c15_short_strings(prop: &str, max_len: usize) -> FamilyResult {
    let t0 = Instant::now();
    let fam = format!("E4 all strings of length 0..={} over {:?} through GameState::from_str", max_len, SIGMA15);
    let mut total = Stats::default();
    for len in 0..=max_len {
        let n = (SIGMA15.len() as u64).pow(len as u32);
        let fam2 = fam.clone();
        let st = (0..n)
            .into_par_iter()
            .fold(Stats::default, |mut st, idx| {
                if report::stopped() {
                    return st;
                }
                let s = nth_string(idx, len, &SIGMA15);
                parse_state_no_panic(prop, &fam2, idx, &s, &mut st);
                st
            })
            .reduce(Stats::default, Stats::merge);
        total = total.merge(st);
    }
    total.roots = total.states;
    total.sample(0, format!("{:?}", (0..5).map(|i| nth_string(4000 + 7919 * i, 5.min(max_len), &SIGMA15)).collect::<Vec<_>>()));
    FamilyResult { explorer: "E4".into(), family: fam, complete: !report::stopped(), note: String::new(), stats: total, wall_s: t0.elapsed().as_secs_f64() }
}

/// Long inputs for the position parser, enumerated by structure: {nothing, a header, a header and a full diagram, one rank
/// line} + separator + a filler run with ONE wide character at every byte offset 0..=`max_tail`.
pub fn c15_long_tails(prop: &str, max_tail: usize) -> FamilyResult {
    let t0 = Instant::now();
    let fam = format!("E4 long inputs through GameState::from_str: {{empty, header, header + diagram, rank line}} + separator + filler run with one 2/3/4-byte character at every byte offset 0..={}", max_tail);
    let diagram = "2g\n +-----------------+\n8| r r r r r r r r |\n7| h d c m e c d h |\n6|     x     x     |\n5|                 |\n4|                 |\n3|     x     x     |\n2| H D C E M C D H |\n1| R R R R R R R R |\n +-----------------+\n   a b c d e f g h\n";
    let heads: Vec<String> = vec!["".into(), "12g".into(), "7s\n".into(), diagram.to_string(), "3| R   C |".into(), "44w |".into()];
    let seps = ["", " ", "\n", "|"];
    let fillers = ['x', ' ', '1', 'R', '|'];
    let wides = ['é', '日', '😀', '٣'];
    let mut jobs: Vec<String> = vec![];
    for h in heads.iter() {
        for sep in seps.iter() {
            for f in fillers.iter() {
                for w in wides.iter() {
                    for k in 0..=max_tail {
                        let mut s = String::with_capacity(h.len() + max_tail + 24);
                        s.push_str(h);
                        s.push_str(sep);
                        for _ in 0..k {
                            s.push(*f);
                        }
                        s.push(*w);
                        while s.len() < h.len() + sep.len() + max_tail + 8 {
                            s.push(*f);
                        }
                        jobs.push(s);
                    }
                }
            }
        }
    }
    let fam2 = fam.clone();
    let mut st = jobs
        .par_iter()
        .enumerate()
        .fold(Stats::default, |mut st, (i, s)| {
            if !report::stopped() {
                parse_state_no_panic(prop, &fam2, i as u64, s, &mut st);
            }
            st
        })
        .reduce(Stats::default, Stats::merge);
    st.roots = st.states;
    FamilyResult { explorer: "E4".into(), family: fam, complete: !report::stopped(), note: String::new(), stats: st, wall_s: t0.elapsed().as_secs_f64() }
}

/// Token grammar: header x rows x row width x cell filling x frame x trailer.
pub fn c15_grammar(prop: &str, thorough: bool) -> FamilyResult {
    let t0 = Instant::now();
    let headers: Vec<String> = vec![
        "", "2g", "2s", "0s", "7b", "13w", "1g", "  2g", "\n2g", "\n\n 45s", "2x", "g", "-1g", "+2g", "2 g", "2G",
        "18446744073709551615g", "18446744073709551616g", "18446744073709551616s", "99999999999999999999999g", "0000000000000000000000002g",
        "4294967296g", "4294967295s", "١g", "١٢s", "２g", "𝟏g", "2gé", "é2g", "2g 3s", "00g", "9223372036854775808b",
    ]
    .into_iter()
    .map(String::from)
    .collect();
    let cells: Vec<char> = vec!['R', 'r', 'E', 'm', 'x', ' ', 'é', '|', 'Ｒ'];
    let max_rows = if thorough { 14 } else { 12 };
    let max_width = if thorough { 14 } else { 12 };
    // job list: (header, rows, width, fill mode, frame, trailer)
    let mut jobs: Vec<(usize, usize, usize, usize, bool, usize)> = vec![];
    let fills = 2 + cells.len(); // 0: all blank, 1: rabbit in the last cell only, 2..: uniform filling with cells[k-2]
    for h in 0..headers.len() {
        for rows in 0..=max_rows {
            for width in 0..=max_width {
                for fill in 0..fills {
                    for frame in [false, true] {
                        for trailer in 0..3 {
                            jobs.push((h, rows, width, fill, frame, trailer));
                        }
                    }
                }
            }
        }
    }
    let fam = format!(
        "E4 diagram grammar: {} headers x rows 0..={} x row width 0..={} cells x {} fillings x frame yes/no x 3 trailers through GameState::from_str",
        headers.len(), max_rows, max_width, fills
    );
    let build = |&(h, rows, width, fill, frame, trailer): &(usize, usize, usize, usize, bool, usize)| -> String {
        let mut s = String::new();
        s.push_str(&headers[h]);
        s.push('\n');
        if frame {
            s.push_str(" +-----------------+\n");
        }
        for r in 0..rows {
            s.push_str(&format!("{}|", 8i64 - r as i64));
            for c in 0..width {
                s.push(' ');
                let ch = match fill {
                    0 => ' ',
                    1 => {
                        if r + 1 == rows && c + 1 == width {
                            'R'
                        } else {
                            ' '
                        }
                    }
                    k => cells[k - 2],
                };
                s.push(ch);
            }
            s.push_str(" |\n");
        }
        if frame {
            s.push_str(" +-----------------+\n   a b c d e f g h\n");
        }
        match trailer {
            1 => s.push_str("garbage | R | x"),
            2 => s.push_str("|"),
            _ => {}
        }
        s
    };
    let fam2 = fam.clone();
    let mut st = jobs
        .par_iter()
        .enumerate()
        .fold(Stats::default, |mut st, (i, job)| {
            if report::stopped() {
                return st;
            }
            let s = build(job);
            parse_state_no_panic(prop, &fam2, i as u64, &s, &mut st);
            if job.1 > 8 || job.2 > 8 {
                st.add("c15_oversized_diagrams", 1);
            }
            st
        })
        .reduce(Stats::default, Stats::merge);
    st.roots = st.states;
    st.sample(0, build(&jobs[jobs.len() / 3]));
    FamilyResult { explorer: "E4".into(), family: fam, complete: !report::stopped(), note: String::new(), stats: st, wall_s: t0.elapsed().as_secs_f64() }
}
