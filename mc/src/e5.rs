//! E5 — complete enumeration of the hashed-feature domain (C17).
use crate::explore::last_panic;
use crate::families;
use crate::glue::*;
use crate::refmodel as rm;
use crate::report::{self, FamilyResult, Stats, Violation};
use arimaa_engine_step::*;
use std::panic::{catch_unwind, AssertUnwindSafe};
use std::time::Instant;

fn build(b: &rm::Board, gold: bool, step: usize, status: PushPullState) -> GameState {
    let pb = piece_board_from_board(b);
    let hash = Zobrist::from_piece_board(pb.piece_board(), gold, step);
    let prev: Vec<PieceBoard> = (0..step).map(|_| pb.clone()).collect();
    let hist = List::new().append(hash);
    GameState::new(gold, 2, Phase::PlayPhase(PlayPhase::new(hash, hist, prev, status, false)), pb, hash)
}

fn viol(prop: &str, fam: &str, what: &str, a: String, b: String) {
    report::report(Violation {
        property: prop.into(),
        explorer: "E5".into(),
        family: fam.into(),
        root_idx: 0,
        root: a.clone(),
        config: serde_json::json!({"first": a, "second": b}),
        actions: vec![],
        what: what.into(),
        observed: "equal transposition hashes".into(),
        expected: "different".into(),
    });
}

pub fn all_statuses() -> Vec<PushPullState> {
    let mut v = vec![PushPullState::None];
    for i in 0..64u8 {
        for p in PIECES.iter() {
            if *p != Piece::Elephant {
                v.push(PushPullState::MustCompletePush(Square::from_index(i), *p));
            }
            if *p != Piece::Rabbit {
                v.push(PushPullState::PossiblePull(Square::from_index(i), *p));
            }
        }
    }
    v
}

const DENSE: &str = "2g
 +-----------------+
8| h c d m e d c h |
7| r r r r r r r r |
6|     x     x     |
5|                 |
4|                 |
3|     x     x     |
2| R R R R R R R R |
1| H C D M E D C H |
 +-----------------+
   a b c d e f g h";

const SPARSE: &str = "2g
 +-----------------+
8|           r     |
7|                 |
6|   R x   e x     |
5|         D       |
4|     c           |
3|     x R r x     |
2|                 |
1|               M |
 +-----------------+
   a b c d e f g h";

/// States reached by ONE step from positions that can be parsed but not reached (several unsupported pieces already on
/// traps: the step removes them all at once): the state after the step against each of its one-square neighbours built
/// from scratch with the public constructors.  The statement is about play-phase states that differ in exactly one hashed
/// feature; an incremental update that loses a square makes the reached state collide with such a neighbour.
pub fn run_ft_successors(prop: &str) -> FamilyResult {
    use rayon::prelude::*;
    let t0 = Instant::now();
    let fam_def = families::ftraps();
    let fam = format!("E5 successors of {} — each compared with its 64 x 12 one-square neighbours", fam_def.name);
    let fam2 = fam.clone();
    let contents: Vec<rm::Cell> = std::iter::once(rm::EMPTY).chain((0..12).map(families::kind_cell)).collect();
    let st = (0..fam_def.n)
        .into_par_iter()
        .fold(Stats::default, |mut st, idx| {
            if report::stopped() {
                return st;
            }
            let (board, gold) = match (fam_def.decode)(idx) {
                Some(x) => x,
                None => return st,
            };
            let r = catch_unwind(AssertUnwindSafe(|| {
                let root = crate::glue::state_from_board(&board, gold, 2);
                for a in root.valid_actions() {
                    let t = root.take_action(&a);
                    let tb = match crate::glue::board_from_engine(t.piece_board()) {
                        Ok(b) => b,
                        Err(_) => continue,
                    };
                    let (tgold, tstep) = (t.is_p1_turn_to_move(), t.current_step());
                    let status = t.as_play_phase().map_or(PushPullState::None, |p| p.push_pull_state());
                    let h = t.transposition_hash();
                    st.states += 1;
                    for sq in 0..64usize {
                        for &c in contents.iter() {
                            if c == tb[sq] {
                                continue;
                            }
                            let mut nb = tb;
                            nb[sq] = c;
                            st.transitions += 1;
                            if build(&nb, tgold, tstep, status).transposition_hash() == h {
                                viol(prop, &fam2, "C17: the state reached by a step and a state that differs from it in the content of one square have the same hash", format!("{}then {}", rm::diagram(&board, gold, 2), a), format!("neighbour differs on {}", rm::sq_name(sq)));
                            }
                        }
                    }
                }
            }));
            if r.is_err() {
                // a panic here is C19's business, not C17's
                st.add("c17_ft_roots_that_panicked", 1);
            }
            st.roots += 1;
            st
        })
        .reduce(Stats::default, Stats::merge);
    FamilyResult { explorer: "E5".into(), family: fam, complete: !report::stopped(), note: String::new(), stats: st, wall_s: t0.elapsed().as_secs_f64() }
}

pub fn run(prop: &str, thorough: bool) -> FamilyResult {
    let t0 = Instant::now();
    let fam = "E5 complete hashed-feature table: every square x every pair of the 13 contents; every kind x every pair of squares; both sides; all step pairs; all C(641,2) pairs of push/pull statuses — in 3 board contexts (empty, sparse, 32-piece) x 2 sides x 4 steps".to_string();
    let mut st = Stats::default();
    let fam2 = fam.clone();
    let r = catch_unwind(AssertUnwindSafe(move || {
        let mut st = Stats::default();
        let contexts: Vec<(&str, rm::Board)> = vec![
            ("empty", [rm::EMPTY; 64]),
            ("sparse", families::board_from_diagram(SPARSE).unwrap().0),
            ("dense", families::board_from_diagram(DENSE).unwrap().0),
        ];
        let statuses = all_statuses();
        st.add("c17_statuses", statuses.len() as u64);
        let contents: Vec<rm::Cell> = std::iter::once(rm::EMPTY).chain((0..12).map(families::kind_cell)).collect();
        for (cname, base) in contexts.iter() {
            for &gold in [true, false].iter() {
                for step in 0..4usize {
                    if !thorough && !(step == 0 || (step == 2 && gold)) && *cname != "empty" {
                        // quick: non-empty contexts only at (step 0, both sides) and (step 2, gold); empty context everywhere
                        continue;
                    }
                    // 1. one square, two contents
                    for sq in 0..64usize {
                        let mut hs: Vec<(u64, rm::Cell)> = Vec::with_capacity(13);
                        for &c in contents.iter() {
                            let mut b = *base;
                            b[sq] = c;
                            hs.push((build(&b, gold, step, PushPullState::None).transposition_hash(), c));
                            st.states += 1;
                        }
                        for i in 0..hs.len() {
                            for j in (i + 1)..hs.len() {
                                st.transitions += 1;
                                if hs[i].0 == hs[j].0 {
                                    viol(prop, &fam2, "C17: two different contents of one square give the same hash", format!("{} context, {} holds {:?}", cname, rm::sq_name(sq), rm::cell_letter(hs[i].1)), format!("holds {:?}", rm::cell_letter(hs[j].1)));
                                }
                            }
                        }
                    }
                    // 2. one piece standing on a different square
                    let empties: Vec<usize> = (0..64).filter(|&i| base[i] == rm::EMPTY).collect();
                    for k in 0..12 {
                        let mut hs: Vec<(u64, usize)> = Vec::with_capacity(64);
                        for &sq in empties.iter() {
                            let mut b = *base;
                            b[sq] = families::kind_cell(k);
                            hs.push((build(&b, gold, step, PushPullState::None).transposition_hash(), sq));
                            st.states += 1;
                        }
                        st.transitions += (hs.len() * hs.len().saturating_sub(1) / 2) as u64;
                        hs.sort();
                        for w in hs.windows(2) {
                            if w[0].0 == w[1].0 {
                                viol(prop, &fam2, "C17: one piece standing on a different square gives the same hash", format!("{} context, {:?} on {}", cname, rm::cell_letter(families::kind_cell(k)), rm::sq_name(w[0].1)), format!("on {}", rm::sq_name(w[1].1)));
                            }
                        }
                    }
                    // 3. push/pull statuses, all pairs
                    let mut hs: Vec<(u64, usize)> = statuses.iter().enumerate().map(|(i, s)| (build(base, gold, step, *s).transposition_hash(), i)).collect();
                    st.states += hs.len() as u64;
                    st.transitions += (hs.len() * (hs.len() - 1) / 2) as u64;
                    st.add("c17_status_pairs", (hs.len() * (hs.len() - 1) / 2) as u64);
                    hs.sort();
                    for w in hs.windows(2) {
                        if w[0].0 == w[1].0 {
                            viol(prop, &fam2, "C17: two different push/pull statuses give the same hash", format!("{} context, {:?}", cname, statuses[w[0].1]), format!("{:?}", statuses[w[1].1]));
                        }
                    }
                }
                // 4. steps, all 6 pairs, under every status kind representative
                for s in [PushPullState::None, statuses[1], statuses[2]].iter() {
                    let hs: Vec<u64> = (0..4).map(|step| build(base, gold, step, *s).transposition_hash()).collect();
                    for i in 0..4 {
                        for j in (i + 1)..4 {
                            st.transitions += 1;
                            st.add("c17_step_pairs", 1);
                            if hs[i] == hs[j] {
                                viol(prop, &fam2, "C17: two different step numbers give the same hash", format!("{} context step {}", cname, i), format!("step {}", j));
                            }
                        }
                    }
                }
            }
            // 5. side to move
            for step in 0..4usize {
                for s in statuses.iter() {
                    st.transitions += 1;
                    st.add("c17_side_pairs", 1);
                    if build(base, true, step, *s).transposition_hash() == build(base, false, step, *s).transposition_hash() {
                        viol(prop, &fam2, "C17: the two sides to move give the same hash", format!("{} context step {} status {:?} gold", cname, step, s), "silver".into());
                    }
                }
            }
        }
        st.sample(0, format!("sparse context, gold, step 0: e5 holds 'D' vs e5 empty; status {:?} vs {:?}", statuses[5], statuses[6]));
        st
    }));
    match r {
        Ok(s) => st = s,
        Err(_) => report::report(Violation {
            property: prop.into(),
            explorer: "E5".into(),
            family: fam.clone(),
            root_idx: 0,
            root: "constructed state".into(),
            config: serde_json::Value::Null,
            actions: vec![],
            what: "panic while hashing a constructed play-phase state".into(),
            observed: last_panic(),
            expected: "a hash".into(),
        }),
    }
    st.roots = 3;
    FamilyResult { explorer: "E5".into(), family: fam, complete: !report::stopped(), note: if thorough { String::new() } else { "quick: the two non-empty contexts are enumerated at (step 0, both sides) and (step 2, Gold) only; the empty context at every side x step".into() }, stats: st, wall_s: t0.elapsed().as_secs_f64() }
}
