//! E7 — stack ladder (C20): child processes that build, clone, query and drop long capture-free histories on threads
//! with explicitly sized stacks.  A stack overflow is a fatal signal, not a panic, hence the process boundary.
use crate::report::{self, FamilyResult, Stats, Violation};
use rayon::prelude::*;
use std::process::Command;
use std::time::Instant;

#[derive(Clone, Debug)]
pub struct Job {
    pub profile: &'static str,
    pub mode: &'static str,
    pub n: usize,
    pub stack: usize,
    pub shape: &'static str,
}

pub const SHAPES: [&str; 10] = ["sole", "clone", "shared_ab", "shared_ba", "other_thread", "concurrent", "diverge8", "clones64", "tail_handle", "twins"];

pub fn jobs(thorough: bool) -> Vec<Job> {
    let mut v = vec![];
    let stacks = [2 * 1024 * 1024usize, 256 * 1024];
    let play_ns: Vec<usize> = if thorough { vec![1, 10, 100, 1000, 10_000, 30_000, 100_000] } else { vec![1, 10, 100, 1000, 10_000, 30_000] };
    let syn_ns: Vec<usize> = if thorough { vec![1, 1000, 100_000, 1_000_000, 4_000_000] } else { vec![1, 1000, 100_000, 1_000_000] };
    for profile in ["release", "debug"] {
        for &stack in stacks.iter() {
            for shape in SHAPES.iter() {
                for &n in play_ns.iter() {
                    if *shape == "concurrent" && n != 1000 {
                        continue;
                    }
                    // the longest played games are run once per profile and stack with every shape only in thorough
                    if !thorough && n >= 30_000 && !(*shape == "sole" || *shape == "shared_ab" || *shape == "diverge8") {
                        continue;
                    }
                    v.push(Job { profile, mode: "play", n, stack, shape });
                }
                for &n in syn_ns.iter() {
                    if *shape == "concurrent" && !(n == 1000 || n == 100_000) {
                        continue;
                    }
                    v.push(Job { profile, mode: "synthetic", n, stack, shape });
                    // the same length with every recorded position occurring exactly twice (a long cycle walked twice)
                    if n >= 100_000 && (*shape == "sole" || *shape == "clone" || *shape == "shared_ab" || *shape == "twins" || *shape == "other_thread") {
                        v.push(Job { profile, mode: "synthetic2", n, stack, shape });
                    }
                }
            }
        }
    }
    v
}

pub fn run(prop: &str, thorough: bool) -> (FamilyResult, bool) {
    let t0 = Instant::now();
    let fam = "E7 child-process ladder: {release, dev} x stack {2 MiB, 256 KiB} x 10 ownership shapes (incl. twins: the same game built twice, compared with ==, hashed, used as HashSet / HashMap keys) x game length N (played: every action from valid_actions(); synthetic: history of distinct values built with List::append; synthetic2: every value twice) — clone, query, drop".to_string();
    let base = crate::verif_dir().join("target").join("stackchild");
    let all = jobs(thorough);
    let fam2 = fam.clone();
    let results: Vec<(Job, Option<i32>, Option<i32>, String)> = all
        .par_iter()
        .map(|j| {
            let exe = base.join(j.profile).join("stackchild");
            let out = Command::new(&exe).args([j.mode, &j.n.to_string(), &j.stack.to_string(), j.shape]).output();
            match out {
                Ok(o) => {
                    #[cfg(unix)]
                    let sig = {
                        use std::os::unix::process::ExitStatusExt;
                        o.status.signal()
                    };
                    #[cfg(not(unix))]
                    let sig = None;
                    (j.clone(), o.status.code(), sig, String::from_utf8_lossy(&o.stderr).trim().to_string())
                }
                Err(e) => (j.clone(), Some(-1), None, format!("cannot run {}: {}", exe.display(), e)),
            }
        })
        .collect();
    let mut st = Stats::default();
    let mut machinery = false;
    for (i, (j, code, sig, err)) in results.iter().enumerate() {
        st.roots += 1;
        st.states += j.n as u64 + 1;
        st.transitions += if j.mode == "play" { 2 * j.n as u64 } else { j.n as u64 };
        st.add("c20_child_runs", 1);
        if j.n >= 100_000 {
            st.add("c20_runs_with_at_least_1e5_history_nodes", 1);
        }
        if j.mode == "play" {
            st.add("c20_played_games", 1);
        }
        let cmd = format!("target/stackchild/{}/stackchild {} {} {} {}", j.profile, j.mode, j.n, j.stack, j.shape);
        match (code, sig) {
            (Some(0), _) => {}
            (Some(3), _) | (Some(2), _) | (Some(-1), _) => {
                machinery = true;
                eprintln!("MACHINERY: {} -> exit {:?}: {}", cmd, code, err);
            }
            _ => {
                report::report(Violation {
                    property: prop.into(),
                    explorer: "E7".into(),
                    family: fam2.clone(),
                    root_idx: i as u64,
                    root: cmd.clone(),
                    config: serde_json::json!({"profile": j.profile, "mode": j.mode, "n": j.n, "stack": j.stack, "shape": j.shape}),
                    actions: vec![],
                    what: "C20: child process died while cloning / querying / dropping a long capture-free history".into(),
                    observed: format!("exit code {:?} signal {:?}: {}", code, sig, err.lines().last().unwrap_or("")),
                    expected: "exit 0".into(),
                });
            }
        }
    }
    st.sample(0, format!("{:?}", all.iter().step_by(all.len() / 4 + 1).map(|j| format!("{} {} N={} stack={} {}", j.profile, j.mode, j.n, j.stack, j.shape)).collect::<Vec<_>>()));
    (FamilyResult { explorer: "E7".into(), family: fam, complete: !machinery, note: String::new(), stats: st, wall_s: t0.elapsed().as_secs_f64() }, machinery)
}

/// E6 for C20: loom body B6 - several owners of a history sharing a 300-node tail drop it concurrently; under every
/// interleaving (within the bound) the stack used below the drop call must stay under a fixed limit.
pub fn loom_b6(prop: &str, thorough: bool) -> (FamilyResult, bool) {
    let t0 = Instant::now();
    let fam = "E6 loom body B6: k owners of lists sharing a 300-node tail drop them concurrently; stack depth probe in every element's Drop (limit 4096 bytes), all interleavings within the preemption bound".to_string();
    let exe = crate::verif_dir().join("target").join("loom").join("release").join("loomh");
    if std::env::var("C20_NO_LOOM").is_ok() {
        return (FamilyResult { explorer: "E6".into(), family: fam, complete: false, note: "NOT RUN: the instrumented copy of this tree does not build under loom (an API loom does not model); the verdict rests on the child-process ladder".into(), stats: Stats::default(), wall_s: 0.0 }, false);
    }
    let jobs: Vec<(usize, &str)> = if thorough { vec![(2, "none"), (3, "none"), (4, "3")] } else { vec![(2, "none"), (3, "3")] };
    let mut st = Stats::default();
    let mut machinery = false;
    for (i, (threads, bound)) in jobs.iter().enumerate() {
        let out = Command::new(&exe).args(["run", "B6", &threads.to_string(), bound]).output();
        match out {
            Err(e) => {
                eprintln!("MACHINERY: cannot run {}: {}", exe.display(), e);
                machinery = true;
            }
            Ok(o) => {
                let stdout = String::from_utf8_lossy(&o.stdout).to_string();
                let stderr = String::from_utf8_lossy(&o.stderr).to_string();
                if o.status.success() {
                    if let Some(j) = stdout.lines().last().and_then(|l| serde_json::from_str::<serde_json::Value>(l).ok()) {
                        let ex = j["executions"].as_u64().unwrap_or(0);
                        st.states += ex;
                        st.transitions += ex * 300 * (*threads as u64);
                        st.add("c20_loom_executions", ex);
                        st.add("c20_loom_max_drop_depth_bytes_sum", j["max_drop_depth_bytes"].as_u64().unwrap_or(0));
                        st.roots += 1;
                    } else {
                        machinery = true;
                    }
                } else {
                    let msg: Vec<&str> = stderr.lines().filter(|l| l.contains("B6") || l.contains("panicked") || l.contains("overflow")).collect();
                    report::report(Violation {
                        property: prop.into(),
                        explorer: "E6".into(),
                        family: fam.clone(),
                        root_idx: 1000 + i as u64,
                        root: format!("target/loom/release/loomh run B6 {} {}", threads, bound),
                        config: serde_json::json!({"body": "B6", "threads": threads, "preemption_bound": bound}),
                        actions: vec![],
                        what: "C20: under some interleaving of concurrent drops, freeing a shared history uses stack proportional to its length (or the process dies)".into(),
                        observed: format!("exit {:?}: {}", o.status.code(), msg.join(" | ")),
                        expected: "bounded stack depth in every interleaving".into(),
                    });
                }
            }
        }
    }
    st.sample(0, "2 threads, unbounded preemptions: both own a clone of a 300-node list of Probe elements; each records the deepest stack address seen in an element's Drop relative to its drop call".to_string());
    (FamilyResult { explorer: "E6".into(), family: fam, complete: !machinery, note: String::new(), stats: st, wall_s: t0.elapsed().as_secs_f64() }, machinery)
}
