//! E1 — turn explorer: every root of a family x every step prefix of one turn, on the real engine.
use crate::explore::*;
use crate::families::Family;
use crate::refmodel as rm;
use crate::report::{self, FamilyResult, Stats};
use rayon::prelude::*;
use std::panic::{catch_unwind, AssertUnwindSafe};
use std::sync::atomic::{AtomicU64, Ordering};
use std::time::Instant;

fn dfs(ctx: &mut Ctx, node: &Node, seen: &mut FxSet<TurnKey>, max_turns: usize, follow: Option<u64>) {
    if report::stopped() {
        return;
    }
    // C14: path-sensitive key (see turn_key), except on the full-board seeds where every order of four steps would be
    // expanded separately (the padded FPX family and the scripted games cover many-piece boards)
    let key = turn_key(node, max_turns > 1, ctx.on(C14) && !ctx.root.family.starts_with("FS "));
    if !seen.insert(key) {
        return;
    }
    ctx.stats.states += 1;
    ctx.stats.digest = ctx.stats.digest.wrapping_add(sip(&(ctx.root.idx, key, node.gold)));
    let succ = visit(ctx, node);
    for s in succ {
        // confinement (padded families): every offered action has been checked by `visit`; only steps that start and end
        // inside the followed region (and passes) are expanded further
        if let (Some(mask), arimaa_engine_step::Action::Move(sq, d)) = (follow, &s.action) {
            let from = sq.index();
            let inside = |i: usize| mask >> i & 1 == 1;
            if !inside(from) || !rm::nb(from, crate::glue::dir_index(*d)).map_or(false, inside) {
                ctx.stats.add("e1_transitions_checked_but_not_followed", 1);
                continue;
            }
        }
        if !s.ends_turn || s.node.hist.len() <= max_turns {
            ctx.path.push(s.action);
            dfs(ctx, &s.node, seen, max_turns, follow);
            ctx.path.pop();
        }
    }
}

pub struct E1Opts<'a> {
    pub prop: &'a str,
    pub checks: u32,
    pub move_number: usize,
    /// wall-clock deadline; roots not started before it are counted as skipped and the family reported incomplete
    pub deadline: Option<Instant>,
    /// explore only roots idx with idx % stride == offset (used by the determinism re-run; 1/0 = all)
    pub chunk: usize,
    /// only evaluate the turn-start oracles on each root, do not expand
    pub roots_only: bool,
    /// number of full turns explored from each root (1 = the turn explorer proper)
    pub max_turns: usize,
    /// Some(mask): expand only steps whose source and target squares are in the mask (all offered actions are still checked)
    pub follow: Option<u64>,
}

pub fn run_family(fam: &Family, o: &E1Opts) -> FamilyResult {
    let t0 = Instant::now();
    let skipped = AtomicU64::new(0);
    let fam_name = fam.name.clone();
    let stats = (0..fam.n)
        .into_par_iter()
        .fold(Stats::default, |mut acc, idx| {
            if report::stopped() {
                return acc;
            }
            if let Some(d) = o.deadline {
                if Instant::now() > d {
                    skipped.fetch_add(1, Ordering::Relaxed);
                    return acc;
                }
            }
            let (board, gold) = match (fam.decode)(idx) {
                Some(x) => x,
                None => return acc,
            };
            let how = match (&fam.setups, fam.how) {
                (Some(o), _) => RootHow::Setup(o[idx as usize].clone()),
                (None, 1) => RootHow::Parsed,
                (None, 2) if idx % 2 == 1 => RootHow::Parsed,
                _ => RootHow::Constructed,
            };
            let root = RootInfo { how, explorer: "E1", family: fam_name.clone(), idx, board, gold, move_number: o.move_number, config: serde_json::Value::Null };
            let mut ctx = Ctx::new(o.checks, o.prop, &root);
            let r = catch_unwind(AssertUnwindSafe(|| {
                let n = root_node(&root);
                turn_start_oracles(&mut ctx, &n, None);
                if o.roots_only {
                    ctx.stats.states += 1;
                } else {
                    let mut seen: FxSet<TurnKey> = FxSet::default();
                    dfs(&mut ctx, &n, &mut seen, o.max_turns, o.follow);
                }
            }));
            if r.is_err() {
                let q = ctx.query;
                ctx.fail(&format!("panic in the engine during `{}` on a reachable state", if q.is_empty() { "(harness code)" } else { q }), last_panic(), "returns normally".into());
            }
            ctx.stats.roots = 1;
            if idx < 4000 && ctx.stats.samples.is_empty() {
                ctx.stats.sample(idx, format!("root #{} ({} to move, explored for one full turn: {} states, {} transitions):\n{}", idx, if gold { "Gold" } else { "Silver" }, ctx.stats.states, ctx.stats.transitions, rm::diagram(&board, gold, o.move_number)));
            }
            acc.merge(ctx.stats)
        })
        .reduce(Stats::default, Stats::merge);
    let sk = skipped.load(Ordering::Relaxed);
    FamilyResult {
        explorer: "E1".into(),
        family: fam.name.clone(),
        complete: sk == 0 && !report::stopped(),
        note: if sk > 0 { format!("wall cap hit: {} root indices not explored (family NOT complete)", sk) } else { String::new() },
        stats,
        wall_s: t0.elapsed().as_secs_f64(),
    }
}
