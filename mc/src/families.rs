//! Root-position families.  Every family is a complete enumeration of a stated finite set (index -> root).
use crate::refmodel as rm;

pub struct Family {
    pub name: String,
    pub n: u64,
    /// how root objects are produced: 0 constructors, 1 from_str, 2 = alternate by root index parity
    pub how: u8,
    /// for setup families: root idx -> 32 placement letters
    pub setups: Option<Vec<String>>,
    pub decode: Box<dyn Fn(u64) -> Option<(rm::Board, bool)> + Sync + Send>,
}

/// kind index 0..12 -> cell: gold R C D H M E, silver r c d h m e
pub fn kind_cell(k: usize) -> rm::Cell {
    rm::cell(k < 6, (k % 6) as u8)
}

pub const ALL_KINDS: [usize; 12] = [0, 1, 2, 3, 4, 5, 6, 7, 8, 9, 10, 11];
/// R C D E r c d e
pub const KINDS8: [usize; 8] = [0, 1, 2, 5, 6, 7, 8, 11];
/// R D E r d e
pub const KINDS6: [usize; 6] = [0, 2, 5, 6, 8, 11];

fn legal(b: &rm::Board) -> bool {
    rm::position_legal(b)
}

pub fn f1() -> Family {
    Family {
        name: "F1 (every board with exactly 1 piece: 64 squares x 12 kinds x 2 sides)".into(),
        n: 64 * 12 * 2,
        how: 0,
        setups: None,
        decode: Box::new(|idx| {
            let side = idx % 2 == 0;
            let kind = ((idx / 2) % 12) as usize;
            let sq = (idx / 24) as usize;
            let mut b = [rm::EMPTY; 64];
            b[sq] = kind_cell(kind);
            if legal(&b) {
                Some((b, side))
            } else {
                None
            }
        }),
    }
}

pub fn f2() -> Family {
    let mut pairs = Vec::new();
    for a in 0..64usize {
        for b in (a + 1)..64 {
            pairs.push((a, b));
        }
    }
    let n = pairs.len() as u64 * 144 * 2;
    Family {
        name: "F2 (every board with exactly 2 pieces: C(64,2) square pairs x 12^2 kinds x 2 sides)".into(),
        n,
        how: 0,
        setups: None,
        decode: Box::new(move |idx| {
            let side = idx % 2 == 0;
            let k2 = ((idx / 2) % 12) as usize;
            let k1 = ((idx / 24) % 12) as usize;
            let (s1, s2) = pairs[(idx / 288) as usize];
            let mut b = [rm::EMPTY; 64];
            b[s1] = kind_cell(k1);
            b[s2] = kind_cell(k2);
            if legal(&b) {
                Some((b, side))
            } else {
                None
            }
        }),
    }
}

/// F2 restricted to a set of kinds (both pieces drawn from `kinds`).
pub fn f2k(kinds: &'static [usize], label: &str) -> Family {
    let mut pairs = Vec::new();
    for a in 0..64usize {
        for b in (a + 1)..64 {
            pairs.push((a, b));
        }
    }
    let nk = kinds.len() as u64;
    let n = pairs.len() as u64 * nk * nk * 2;
    Family {
        name: format!("F2k (every board with exactly 2 pieces of kinds {}: C(64,2) square pairs x {}^2 kinds x 2 sides)", label, nk),
        n,
        how: 0,
        setups: None,
        decode: Box::new(move |idx| {
            let side = idx % 2 == 0;
            let k2 = kinds[((idx / 2) % nk) as usize];
            let k1 = kinds[((idx / (2 * nk)) % nk) as usize];
            let (s1, s2) = pairs[(idx / (2 * nk * nk)) as usize];
            let mut b = [rm::EMPTY; 64];
            b[s1] = kind_cell(k1);
            b[s2] = kind_cell(k2);
            if legal(&b) {
                Some((b, side))
            } else {
                None
            }
        }),
    }
}

/// FT: positions that can be parsed but not reached by play: every filling of the four trap squares with
/// {empty, R, C, E, r, c, e} (at least two occupied, all unsupported), plus a gold dog on a1 and a silver dog on h8 that
/// can step.  C03 quantifies over games "from any parsed position": the first step from such a position removes several
/// pieces at once, which no reachable state does.  Used for C03 only (C13's "never more than one piece" is about
/// reachable states).
pub fn ftraps() -> Family {
    let alphabet: [rm::Cell; 7] = [rm::EMPTY, rm::cell(true, 0), rm::cell(true, 1), rm::cell(true, 5), rm::cell(false, 0), rm::cell(false, 1), rm::cell(false, 5)];
    let n = 7u64.pow(4) * 2;
    Family {
        name: "FT (parsed, not reachable: every filling of the four trap squares with {empty,R,C,E,r,c,e}, >= 2 occupied, all unsupported; D a1 and d h8 can step; 7^4 x 2 sides)".into(),
        n,
        how: 1,
        setups: None,
        decode: Box::new(move |idx| {
            let side = idx % 2 == 0;
            let mut fill = idx / 2;
            let mut b = [rm::EMPTY; 64];
            let mut cnt = 0;
            for &t in rm::TRAPS.iter() {
                let v = alphabet[(fill % 7) as usize];
                fill /= 7;
                if v != rm::EMPTY {
                    b[t] = v;
                    cnt += 1;
                }
            }
            b[56] = rm::cell(true, 2);
            b[7] = rm::cell(false, 2);
            if cnt >= 2 {
                Some((b, side))
            } else {
                None
            }
        }),
    }
}

/// FM (material ladder): full 32-piece boards from which the first (or last) k rabbits and the first o officers of each
/// side are taken off, for every k in 0..=8 and o in {0,1,2,8} per side: every material balance around the elimination of
/// a side's rabbits (16 v 8 officers, 24 / 23 / 25 pieces, both sides without rabbits, a side with rabbits only, ...).
/// Three base arrangements (rabbits on the back rank; rabbits on the front rank; armies advanced to ranks 3-4 / 5-6).
pub fn fmaterial() -> Family {
    let mut bases: Vec<rm::Board> = vec![];
    // officers order along a rank: h d c m e c d h -> strengths 3 2 1 4 5 1 2 3
    let offs: [u8; 8] = [3, 2, 1, 4, 5, 1, 2, 3];
    for (g_r, g_o, s_r, s_o) in [(7usize, 6usize, 0usize, 1usize), (6, 7, 1, 0), (5, 4, 2, 3)] {
        let mut b = [rm::EMPTY; 64];
        for f in 0..8 {
            b[g_r * 8 + f] = rm::cell(true, 0);
            b[g_o * 8 + f] = rm::cell(true, offs[f]);
            b[s_r * 8 + f] = rm::cell(false, 0);
            b[s_o * 8 + f] = rm::cell(false, offs[f]);
        }
        bases.push(b);
    }
    const OFF: [usize; 4] = [0, 1, 2, 8];
    let per_side = 9 * 4;
    let n = bases.len() as u64 * (per_side * per_side) as u64 * 2 * 2;
    Family {
        name: "FM (material ladder: 3 full 32-piece boards with the first/last k rabbits and the first o officers of each side removed, k in 0..=8, o in {0,1,2,8}; 3 x 36^2 x 2 orders x 2 sides)".into(),
        n,
        how: 2,
        setups: None,
        decode: Box::new(move |idx| {
            let side = idx % 2 == 0;
            let mut i = idx / 2;
            let from_end = i % 2 == 1;
            i /= 2;
            let gk = (i % 9) as usize;
            i /= 9;
            let go = OFF[(i % 4) as usize];
            i /= 4;
            let sk = (i % 9) as usize;
            i /= 9;
            let so = OFF[(i % 4) as usize];
            i /= 4;
            let mut b = bases[i as usize];
            for (gold, k, o) in [(true, gk, go), (false, sk, so)] {
                let mut rabbits: Vec<usize> = (0..64).filter(|&q| b[q] == rm::cell(gold, 0)).collect();
                let mut officers: Vec<usize> = (0..64).filter(|&q| b[q] != rm::EMPTY && rm::is_gold(b[q]) == gold && rm::strength(b[q]) > 0).collect();
                if from_end {
                    rabbits.reverse();
                    officers.reverse();
                }
                for &q in rabbits.iter().take(k) {
                    b[q] = rm::EMPTY;
                }
                for &q in officers.iter().take(o) {
                    b[q] = rm::EMPTY;
                }
            }
            if b.iter().all(|&c| c == rm::EMPTY) || !legal(&b) {
                return None;
            }
            Some((b, side))
        }),
    }
}

/// F4B: two Gold pieces (kinds R C E) and two Silver pieces (kinds r c e) on any four of the 28 border squares, plus a
/// silver rabbit parked on d5 (so that neither elimination nor goal decides when Gold has a rabbit): every way two pieces
/// of one side can face each other across the whole board along an edge, with their freezers next to them.  Meant for
/// the turn-start oracle at the root (C04): wrap-arounds between rank 1 and rank 8 or between the a- and the h-file
/// change who is frozen, hence who is immobilised.
pub fn f4border() -> Family {
    let border: Vec<usize> = (0..64).filter(|i| i % 8 == 0 || i % 8 == 7 || i / 8 == 0 || i / 8 == 7).collect();
    let mut quads: Vec<[usize; 4]> = Vec::new();
    let nb = border.len();
    for a in 0..nb {
        for b in (a + 1)..nb {
            for c in (b + 1)..nb {
                for d in (c + 1)..nb {
                    quads.push([border[a], border[b], border[c], border[d]]);
                }
            }
        }
    }
    // which two of the four squares are Gold's
    const SPLITS: [[usize; 2]; 6] = [[0, 1], [0, 2], [0, 3], [1, 2], [1, 3], [2, 3]];
    const G: [usize; 3] = [0, 1, 5];
    const S: [usize; 3] = [6, 7, 11];
    let n = quads.len() as u64 * 6 * 81 * 2;
    Family {
        name: format!("F4B (2 Gold pieces of kinds RCE + 2 Silver pieces of kinds rce on any 4 of the 28 border squares, silver rabbit parked on d5; {} square sets x 6 colour splits x 81 kinds x 2 sides)", quads.len()),
        n,
        how: 0,
        setups: None,
        decode: Box::new(move |idx| {
            let side = idx % 2 == 0;
            let mut x = idx / 2;
            let kinds = (x % 81) as usize;
            x /= 81;
            let split = SPLITS[(x % 6) as usize];
            x /= 6;
            let q = quads[x as usize];
            let mut b = [rm::EMPTY; 64];
            let (mut kg, mut ks) = (kinds % 9, kinds / 9);
            for j in 0..4 {
                if split.contains(&j) {
                    b[q[j]] = kind_cell(G[kg % 3]);
                    kg /= 3;
                } else {
                    b[q[j]] = kind_cell(S[ks % 3]);
                    ks /= 3;
                }
            }
            b[27] = kind_cell(6); // silver rabbit on d5
            if legal(&b) && !rm::rabbit_on_goal(&b, true) && !rm::rabbit_on_goal(&b, false) {
                Some((b, side))
            } else {
                None
            }
        }),
    }
}

/// F3L: three pieces on one rank or one file (any three squares of the line: far apart as well as adjacent), kinds
/// R E r e.  What a carry, borrow or rotate travelling along a rank / file (or across a rank boundary) would disturb.
pub fn f3line() -> Family {
    let mut triples: Vec<[usize; 3]> = Vec::new();
    for line in 0..8usize {
        for a in 0..8usize {
            for b in (a + 1)..8 {
                for c in (b + 1)..8 {
                    triples.push([line * 8 + a, line * 8 + b, line * 8 + c]);
                    triples.push([a * 8 + line, b * 8 + line, c * 8 + line]);
                }
            }
        }
    }
    // ... and triples that straddle a rank boundary: g_k, h_k, a_(k-1) / h_k, a_(k-1), b_(k-1) (consecutive bits)
    for i in 0..62usize {
        if i % 8 >= 6 {
            triples.push([i, i + 1, i + 2]);
        }
    }
    const K4: [usize; 4] = [0, 5, 6, 11];
    let n = triples.len() as u64 * 64 * 2;
    Family {
        name: format!("F3L (3 pieces on one rank or file, any spacing, plus consecutive-bit triples across a rank boundary; kinds REre; {} square triples x 4^3 kinds x 2 sides)", triples.len()),
        n,
        how: 0,
        setups: None,
        decode: Box::new(move |idx| {
            let side = idx % 2 == 0;
            let mut x = idx / 2;
            let mut b = [rm::EMPTY; 64];
            let t = triples[(x / 64) as usize];
            x %= 64;
            for j in 0..3 {
                b[t[j]] = kind_cell(K4[(x % 4) as usize]);
                x /= 4;
            }
            if legal(&b) {
                Some((b, side))
            } else {
                None
            }
        }),
    }
}

/// All square triples whose bounding box fits a 3x3 window whose top-left corner (file, row) is in `anchors`
/// (None = every one of the 36 windows).  Each triple appears once.
pub fn window_triples(anchors: Option<&[(usize, usize)]>) -> Vec<(usize, usize, usize)> {
    let mut out = Vec::new();
    for a in 0..64usize {
        for b in (a + 1)..64 {
            for c in (b + 1)..64 {
                let fs = [a % 8, b % 8, c % 8];
                let rs = [a / 8, b / 8, c / 8];
                let (f0, f1) = (*fs.iter().min().unwrap(), *fs.iter().max().unwrap());
                let (r0, r1) = (*rs.iter().min().unwrap(), *rs.iter().max().unwrap());
                if f1 - f0 > 2 || r1 - r0 > 2 {
                    continue;
                }
                let ok = match anchors {
                    None => true,
                    Some(list) => list.iter().any(|&(af, ar)| f0 >= af && f1 <= af + 2 && r0 >= ar && r1 <= ar + 2),
                };
                if ok {
                    out.push((a, b, c));
                }
            }
        }
    }
    out
}

/// quick anchors: 4 corners, 4 trap-centred windows, 1 centre window (top-left corners as (file,row))
pub const QUICK_ANCHORS: [(usize, usize); 9] = [(0, 0), (5, 0), (0, 5), (5, 5), (1, 1), (4, 1), (1, 4), (4, 4), (3, 3)];

/// quick anchors: a1 corner, h8 corner, c3-centred, f6-centred, centre
pub const QUICK_ANCHORS5: [(usize, usize); 5] = [(0, 5), (5, 0), (1, 4), (4, 1), (3, 3)];
pub const QUICK_ANCHORS3: [(usize, usize); 3] = [(0, 5), (4, 1), (3, 3)];

pub fn f3w(anchors: Option<&[(usize, usize)]>, kinds: &'static [usize], label: &str) -> Family {
    let triples = window_triples(anchors);
    let nk = kinds.len() as u64;
    let n = triples.len() as u64 * nk * nk * nk * 2;
    Family {
        name: format!("F3W (3 pieces inside a 3x3 window; {}; {} square triples x {}^3 kinds x 2 sides)", label, triples.len(), nk),
        n,
        how: 0,
        setups: None,
        decode: Box::new(move |idx| {
            let side = idx % 2 == 0;
            let mut x = idx / 2;
            let k3 = kinds[(x % nk) as usize];
            x /= nk;
            let k2 = kinds[(x % nk) as usize];
            x /= nk;
            let k1 = kinds[(x % nk) as usize];
            x /= nk;
            let (s1, s2, s3) = triples[x as usize];
            let mut b = [rm::EMPTY; 64];
            b[s1] = kind_cell(k1);
            b[s2] = kind_cell(k2);
            b[s3] = kind_cell(k3);
            if legal(&b) {
                Some((b, side))
            } else {
                None
            }
        }),
    }
}

/// 3 pieces on any squares, reduced kinds.
pub fn f3r(kinds: &'static [usize], label: &str) -> Family {
    let nk = kinds.len() as u64;
    let ntr: u64 = 64 * 63 * 62 / 6;
    let n = ntr * nk * nk * nk * 2;
    // unrank combinations lazily: precompute list of triples (41664)
    let mut triples = Vec::with_capacity(ntr as usize);
    for a in 0..64usize {
        for b in (a + 1)..64 {
            for c in (b + 1)..64 {
                triples.push((a as u8, b as u8, c as u8));
            }
        }
    }
    Family {
        name: format!("F3R (3 pieces on any squares; kinds {}; {} triples x {}^3 x 2 sides)", label, ntr, nk),
        n,
        how: 0,
        setups: None,
        decode: Box::new(move |idx| {
            let side = idx % 2 == 0;
            let mut x = idx / 2;
            let k3 = kinds[(x % nk) as usize];
            x /= nk;
            let k2 = kinds[(x % nk) as usize];
            x /= nk;
            let k1 = kinds[(x % nk) as usize];
            x /= nk;
            let (s1, s2, s3) = triples[x as usize];
            let mut b = [rm::EMPTY; 64];
            b[s1 as usize] = kind_cell(k1);
            b[s2 as usize] = kind_cell(k2);
            b[s3 as usize] = kind_cell(k3);
            if legal(&b) {
                Some((b, side))
            } else {
                None
            }
        }),
    }
}

/// Every filling of a w x h window (anchored at each of `anchors`) with {empty,R,C,E,r,c,e}, at least `min_pieces`.
pub fn fd(w: usize, h: usize, anchors: Vec<(usize, usize)>, min_pieces: usize, label: &str) -> Family {
    let cells = w * h;
    let per = 7u64.pow(cells as u32);
    let n = per * anchors.len() as u64 * 2;
    let alphabet: [rm::Cell; 7] = [rm::EMPTY, rm::cell(true, 0), rm::cell(true, 1), rm::cell(true, 5), rm::cell(false, 0), rm::cell(false, 1), rm::cell(false, 5)];
    Family {
        name: format!("FD (every filling of a {}x{} window with {{empty,R,C,E,r,c,e}}, >= {} pieces; {}; {} anchors x 7^{} x 2 sides)", w, h, min_pieces, label, anchors.len(), cells),
        n,
        how: 0,
        setups: None,
        decode: Box::new(move |idx| {
            let side = idx % 2 == 0;
            let mut x = idx / 2;
            let mut fill = x % per;
            x /= per;
            let (af, ar) = anchors[x as usize];
            let mut b = [rm::EMPTY; 64];
            let mut cnt = 0;
            for cy in 0..h {
                for cx in 0..w {
                    let c = alphabet[(fill % 7) as usize];
                    fill /= 7;
                    if c != rm::EMPTY {
                        cnt += 1;
                        b[(ar + cy) * 8 + af + cx] = c;
                    }
                }
            }
            if cnt >= min_pieces && legal(&b) {
                Some((b, side))
            } else {
                None
            }
        }),
    }
}

pub fn all_anchors(w: usize, h: usize) -> Vec<(usize, usize)> {
    let mut v = Vec::new();
    for r in 0..=(8 - h) {
        for f in 0..=(8 - w) {
            v.push((f, r));
        }
    }
    v
}

/// Parses a plain diagram (the engine's printed layout) with the harness's own reader.
pub fn board_from_diagram(text: &str) -> Result<(rm::Board, bool, usize), String> {
    let lines: Vec<&str> = text.lines().filter(|l| !l.trim().is_empty()).collect();
    let mut b = [rm::EMPTY; 64];
    let mut gold = true;
    let mut mn = 2usize;
    let mut rows = 0;
    for l in lines {
        let t = l.trim_start();
        if let Some(bar) = t.find('|') {
            let rank: usize = t[..bar].trim().parse().map_err(|_| format!("bad rank label in {:?}", l))?;
            let body: Vec<char> = t[bar + 1..].chars().collect();
            for f in 0..8 {
                let ch = *body.get(1 + 2 * f).ok_or_else(|| format!("short row {:?}", l))?;
                let i = (8 - rank) * 8 + f;
                let st = match ch.to_ascii_lowercase() {
                    'r' => Some(0),
                    'c' => Some(1),
                    'd' => Some(2),
                    'h' => Some(3),
                    'm' => Some(4),
                    'e' => Some(5),
                    ' ' | 'x' | '.' => None,
                    _ => return Err(format!("bad cell {:?} in {:?}", ch, l)),
                };
                if let Some(st) = st {
                    b[i] = rm::cell(ch.is_ascii_uppercase(), st);
                }
            }
            rows += 1;
        } else if t.starts_with('+') || t.starts_with('a') {
            continue;
        } else {
            let digits: String = t.chars().take_while(|c| c.is_ascii_digit()).collect();
            let rest = &t[digits.len()..];
            if !digits.is_empty() {
                mn = digits.parse().map_err(|_| "bad move number".to_string())?;
                gold = rest.starts_with('g') || rest.starts_with('w');
            }
        }
    }
    if rows != 8 {
        return Err(format!("{} rows", rows));
    }
    Ok((b, gold, mn))
}

pub fn mirror_board(b: &rm::Board) -> rm::Board {
    let mut n = [rm::EMPTY; 64];
    for i in 0..64 {
        n[(i / 8) * 8 + (7 - i % 8)] = b[i];
    }
    n
}

/// swap colours and flip ranks
pub fn swap_board(b: &rm::Board) -> rm::Board {
    let mut n = [rm::EMPTY; 64];
    for i in 0..64 {
        if b[i] != rm::EMPTY {
            n[(7 - i / 8) * 8 + i % 8] = b[i] ^ 8;
        }
    }
    n
}

/// FS: curated full-board seeds from /verif/seeds/*.txt, each as written, mirrored, colour-swapped and both, for both sides.
pub fn fs(dir: &std::path::Path) -> Family {
    fs_with(dir, true)
}

/// `all_variants` = false: seeds from files named generated*.txt are used as written only (x 2 sides); the hand-made
/// ones always in all four orientations.
pub fn fs_with(dir: &std::path::Path, all_variants: bool) -> Family {
    fs_sel(dir, all_variants, true)
}

/// `with_generated` = false leaves the generated*.txt seeds out altogether (used by the 4-fold lock-step quick run).
pub fn fs_sel(dir: &std::path::Path, all_variants: bool, with_generated: bool) -> Family {
    fs_variants(dir, 4, if !with_generated { 0 } else if all_variants { 4 } else { 1 })
}

/// `hv` / `gv`: number of symmetry variants (1 = as written, 4 = + mirrored, colour-swapped, both) used for the
/// hand-made (incl. max-mobility) and for the generated seeds; 0 leaves that group out.
pub fn fs_variants(dir: &std::path::Path, hv: u64, gv: u64) -> Family {
    fs_impl(dir, hv, gv, None)
}

/// Only the seeds of the named files, `hv` variants each.
pub fn fs_files(dir: &std::path::Path, files: &[&str], hv: u64) -> Family {
    fs_impl(dir, hv, hv, Some(files.iter().map(|s| s.to_string()).collect()))
}

fn fs_impl(dir: &std::path::Path, hv: u64, gv: u64, only: Option<Vec<String>>) -> Family {
    let all_variants = gv == 4;
    let with_generated = gv > 0;
    let mut boards: Vec<(rm::Board, String)> = Vec::new();
    let mut files: Vec<_> = std::fs::read_dir(dir).map(|d| d.filter_map(|e| e.ok()).map(|e| e.path()).collect::<Vec<_>>()).unwrap_or_default();
    files.sort();
    for f in files {
        if f.extension().map_or(true, |e| e != "txt") {
            continue;
        }
        if let Some(o) = &only {
            if !o.iter().any(|n| f.file_name().map_or(false, |x| x.to_string_lossy() == *n)) {
                continue;
            }
        }
        let text = std::fs::read_to_string(&f).unwrap();
        // several diagrams per file, separated by lines starting with '#'
        let mut cur = String::new();
        let mut chunks = Vec::new();
        for l in text.lines() {
            if l.starts_with('#') {
                if !cur.trim().is_empty() {
                    chunks.push(cur.clone());
                }
                cur.clear();
            } else {
                cur.push_str(l);
                cur.push('\n');
            }
        }
        if !cur.trim().is_empty() {
            chunks.push(cur);
        }
        for (ci, c) in chunks.iter().enumerate() {
            match board_from_diagram(c) {
                Ok((b, _, _)) => {
                    if !legal(&b) {
                        eprintln!("mc: seed {}#{} is not a legal position, skipped", f.display(), ci);
                        continue;
                    }
                    boards.push((b, format!("{}#{}", f.file_name().unwrap().to_string_lossy(), ci)));
                }
                Err(e) => {
                    eprintln!("mc: seed {}#{} unreadable: {}", f.display(), ci, e);
                }
            }
        }
    }
    // expand to (board index, variant) pairs
    let mut items: Vec<(usize, u64)> = vec![];
    for (i, (_, name)) in boards.iter().enumerate() {
        // hill-climbed boards (maxmobility, bothmobile) are heavy roots: all four variants only when the generated ones get them too
        let nvar = if name.starts_with("generated") { gv } else if name.starts_with("maxmobility") || name.starts_with("bothmobile") { hv.min(gv.max(1)) } else { hv };
        for v in 0..nvar {
            items.push((i, v));
        }
    }
    let n = items.len() as u64 * 2;
    Family {
        name: format!("FS ({} curated full-board seeds{}{}{}, x 2 sides = {} roots; odd roots parsed with from_str)", boards.len(), match &only { Some(o) => format!(" from {}", o.join(" + ")), None => String::new() }, if with_generated { "" } else { " (generated ones left out)" }, if hv == 1 { " as written (the three images are the lock-step partners)" } else if all_variants { " x (as written, mirrored, colour-swapped, both)" } else { ": hand-made ones x (as written, mirrored, colour-swapped, both), generated ones as written" }, n),
        n,
        how: 2,
        setups: None,
        decode: Box::new(move |idx| {
            let side = idx % 2 == 0;
            let (bi, variant) = items[(idx / 2) as usize];
            let (b, _) = &boards[bi];
            let b = match variant {
                0 => *b,
                1 => mirror_board(b),
                2 => swap_board(b),
                _ => mirror_board(&swap_board(b)),
            };
            Some((b, side))
        }),
    }
}

/// Board reached by a placement order, computed with the harness's own square sequence.
pub fn board_of_setup(order: &str) -> rm::Board {
    let mut b = [rm::EMPTY; 64];
    for (i, c) in order.chars().enumerate() {
        let gold = i < 16;
        let k = i % 16;
        let sq = crate::e3::placement_square(gold, k);
        let st = match c {
            'r' => 0,
            'c' => 1,
            'd' => 2,
            'h' => 3,
            'm' => 4,
            _ => 5,
        };
        b[sq] = rm::cell(gold, st);
    }
    b
}

/// FSETUP: play-phase roots produced by the engine's own setup phase (32 real placements), Gold to move, move 2.
pub fn fsetup(n_gold: usize, n_silver: usize) -> Family {
    let g = crate::e3::gold_setups(n_gold);
    let sv = crate::e3::gold_setups(n_silver + 3);
    let mut orders = vec![];
    for a in g.iter() {
        for b in sv.iter().rev().take(n_silver) {
            orders.push(format!("{}{}", a, b));
        }
    }
    let n = orders.len() as u64;
    let o2 = orders.clone();
    Family {
        name: format!("FSETUP ({} complete set-ups played through the engine's placement phase: {} Gold orders x {} Silver orders; root = the state after the 32nd placement)", n, n_gold, n_silver),
        n,
        how: 0,
        setups: Some(orders),
        decode: Box::new(move |idx| Some((board_of_setup(&o2[idx as usize]), true))),
    }
}

/// The first `k` diagrams of seeds/handmade.txt (the opening positions) as written, Gold to move only (for FS2).
pub fn fs_first(dir: &std::path::Path, k: usize) -> Family {
    let text = std::fs::read_to_string(dir.join("handmade.txt")).unwrap_or_default();
    let mut boards: Vec<rm::Board> = vec![];
    let mut cur = String::new();
    let mut chunks = vec![];
    for l in text.lines() {
        if l.starts_with('#') {
            if !cur.trim().is_empty() {
                chunks.push(cur.clone());
            }
            cur.clear();
        } else {
            cur.push_str(l);
            cur.push('\n');
        }
    }
    if !cur.trim().is_empty() {
        chunks.push(cur);
    }
    for c in chunks.iter().take(k) {
        if let Ok((b, _, _)) = board_from_diagram(c) {
            boards.push(b);
        }
    }
    let n = boards.len() as u64;
    Family {
        name: format!("the first {} opening seeds of seeds/handmade.txt as written, Gold to move", n),
        n,
        how: 0,
        setups: None,
        decode: Box::new(move |idx| Some((boards[idx as usize], true))),
    }
}

/// FP: every filling of the 5-square plus (centre + 4 neighbours) around each of `centres` (interior squares) with
/// {empty,R,C,E,r,c,e}, at least `min_pieces` pieces: dense neighbourhoods (a piece with up to four neighbours:
/// several supporters and freezers at once, pusher + victim + freezer + supporter, capture chains at traps).
pub fn fplus(centres: Vec<usize>, min_pieces: usize, label: &str) -> Family {
    let per = 7u64.pow(5);
    let n = per * centres.len() as u64 * 2;
    let alphabet: [rm::Cell; 7] = [rm::EMPTY, rm::cell(true, 0), rm::cell(true, 1), rm::cell(true, 5), rm::cell(false, 0), rm::cell(false, 1), rm::cell(false, 5)];
    Family {
        name: format!("FP (every filling of the plus - centre + 4 neighbours - around {} with {{empty,R,C,E,r,c,e}}, >= {} pieces; {} centres x 7^5 x 2 sides)", label, min_pieces, centres.len()),
        n,
        how: 0,
        setups: None,
        decode: Box::new(move |idx| {
            let side = idx % 2 == 0;
            let mut x = idx / 2;
            let mut fill = x % per;
            x /= per;
            let t = centres[x as usize];
            let cells = [t, t - 8, t + 1, t + 8, t - 1];
            let mut b = [rm::EMPTY; 64];
            let mut cnt = 0;
            for &c in cells.iter() {
                let v = alphabet[(fill % 7) as usize];
                fill /= 7;
                if v != rm::EMPTY {
                    cnt += 1;
                    b[c] = v;
                }
            }
            if cnt >= min_pieces && legal(&b) {
                Some((b, side))
            } else {
                None
            }
        }),
    }
}

/// FPX: the plus fillings around trap c3 (or, `image` = true, around f6 with everything mirrored and colour-swapped) on a
/// board that also holds a fixed background of 16 further pieces (kinds outside the filling alphabet plus three rabbits a
/// side): Gold's stand on the eight squares next to the two far traps (so that every scan over trap neighbourhoods meets
/// many pieces before the interesting ones), Silver's around the third trap and on its home ranks.  Returned with the
/// mask of the region whose steps are followed (the plus and everything within two steps of its centre).
pub fn fplus_padded(image: bool, min_pieces: usize) -> (Family, u64) {
    let per = 7u64.pow(5);
    let alphabet: [rm::Cell; 7] = [rm::EMPTY, rm::cell(true, 0), rm::cell(true, 1), rm::cell(true, 5), rm::cell(false, 0), rm::cell(false, 1), rm::cell(false, 5)];
    let mut bg = [rm::EMPTY; 64];
    // Gold: M, 2 H, 2 D, 3 R on the squares next to traps c6 and f6; Silver: m, 2 h, 2 d, 3 r around f3 and at home
    for (name, gold, st) in [
        ("c7", true, 2u8), ("f7", true, 3), ("b6", true, 3), ("d6", true, 2), ("e6", true, 0), ("g6", true, 4), ("c5", true, 0), ("f5", true, 0),
        ("b8", false, 0), ("d8", false, 3), ("g8", false, 0), ("h7", false, 2), ("h4", false, 4), ("g3", false, 3), ("f2", false, 0), ("h1", false, 2),
    ] {
        bg[crate::e2::sq(name)] = rm::cell(gold, st);
    }
    let tr = |i: usize| if image { 63 - i } else { i };
    let centre = 42usize; // c3
    let mut mask = 0u64;
    for i in 0..64usize {
        let (df, dr) = ((i % 8) as i32 - (centre % 8) as i32, (i / 8) as i32 - (centre / 8) as i32);
        if df.abs() + dr.abs() <= 2 {
            mask |= 1u64 << tr(i);
        }
    }
    let fam = Family {
        name: format!("FPX (every filling of the plus around trap {} with {{empty,R,C,E,r,c,e}}, >= {} pieces, on a board with a fixed background of 16 further pieces around the other traps; only steps within two squares of the trap are followed, every offered action is checked; 7^5 x 2 sides)", if image { "f6 (mirrored, colour-swapped background)" } else { "c3" }, min_pieces),
        n: per * 2,
        how: 0,
        setups: None,
        decode: Box::new(move |idx| {
            let side = idx % 2 == 0;
            let mut fill = idx / 2;
            let cells = [centre, centre - 8, centre + 1, centre + 8, centre - 1];
            let mut b = bg;
            let mut cnt = 0;
            for &c in cells.iter() {
                let v = alphabet[(fill % 7) as usize];
                fill /= 7;
                if v != rm::EMPTY {
                    cnt += 1;
                    b[c] = v;
                }
            }
            if cnt < min_pieces || !legal(&b) {
                return None;
            }
            if image {
                // rotate by 180 degrees and swap the colours = mirror + (colour swap with rank flip)
                let b2 = mirror_board(&swap_board(&b));
                Some((b2, !side))
            } else {
                Some((b, side))
            }
        }),
    };
    (fam, mask)
}

pub fn interior_squares() -> Vec<usize> {
    (0..64).filter(|i| i % 8 > 0 && i % 8 < 7 && i / 8 > 0 && i / 8 < 7).collect()
}

/// R C E r c e
pub const KINDS6B: [usize; 6] = [0, 1, 5, 6, 7, 11];

/// F4W: 4 pieces whose bounding box fits a 3x3 window (any of the 36 windows, each quadruple once), reduced kinds.
pub fn f4w(kinds: &'static [usize], label: &str) -> Family {
    let mut quads: Vec<[u8; 4]> = Vec::new();
    for a in 0..64usize {
        for b in (a + 1)..64 {
            for c in (b + 1)..64 {
                for d in (c + 1)..64 {
                    let fs = [a % 8, b % 8, c % 8, d % 8];
                    let rs = [a / 8, b / 8, c / 8, d / 8];
                    if fs.iter().max().unwrap() - fs.iter().min().unwrap() > 2 || rs.iter().max().unwrap() - rs.iter().min().unwrap() > 2 {
                        continue;
                    }
                    quads.push([a as u8, b as u8, c as u8, d as u8]);
                }
            }
        }
    }
    let nk = kinds.len() as u64;
    let n = quads.len() as u64 * nk.pow(4) * 2;
    Family {
        name: format!("F4W (4 pieces inside a 3x3 window, all 36 windows; kinds {}; {} square quadruples x {}^4 x 2 sides)", label, quads.len(), nk),
        n,
        how: 0,
        setups: None,
        decode: Box::new(move |idx| {
            let side = idx % 2 == 0;
            let mut x = idx / 2;
            let mut b = [rm::EMPTY; 64];
            let mut ks = [0usize; 4];
            for k in ks.iter_mut() {
                *k = kinds[(x % nk) as usize];
                x /= nk;
            }
            let q = quads[x as usize];
            for i in 0..4 {
                b[q[i] as usize] = kind_cell(ks[i]);
            }
            if legal(&b) {
                Some((b, side))
            } else {
                None
            }
        }),
    }
}

/// FS2: every distinct position (Silver to move) reachable by ONE complete Gold turn from the first `k` opening seeds
/// of seeds/handmade.txt, each then explored for one full turn as a root of its own (two turns deep from the opening
/// without holding both turns' state sets in memory at once).
pub fn fs2(dir: &std::path::Path, k: usize) -> Family {
    use arimaa_engine_step::*;
    let first = fs_first(dir, k);
    let mut boards: Vec<rm::Board> = vec![];
    let mut seen_pos: std::collections::HashSet<[u64; 8]> = std::collections::HashSet::new();
    for idx in 0..first.n {
        let (b, gold) = (first.decode)(idx).unwrap();
        let root = crate::glue::state_from_board(&b, gold, 2);
        let mut seen: std::collections::HashSet<([u64; 8], usize, u32)> = std::collections::HashSet::new();
        let mut stack = vec![root];
        while let Some(s) = stack.pop() {
            let key = (crate::glue::raw(s.piece_board()), s.current_step(), crate::glue::pps_code(s.unwrap_play_phase().push_pull_state()));
            if !seen.insert(key) {
                continue;
            }
            for a in s.valid_actions() {
                let t = s.take_action(&a);
                if t.is_p1_turn_to_move() != s.is_p1_turn_to_move() {
                    if seen_pos.insert(crate::glue::raw(t.piece_board())) {
                        if let Ok(nb) = crate::glue::board_from_engine(t.piece_board()) {
                            boards.push(nb);
                        }
                    }
                } else {
                    stack.push(t);
                }
            }
        }
    }
    let n = boards.len() as u64;
    Family {
        name: format!("FS2 (every one of the {} distinct positions reachable by one complete Gold turn from the {} opening seeds, Silver to move, each explored for one full turn)", n, first.n),
        n,
        how: 0,
        setups: None,
        decode: Box::new(move |idx| Some((boards[idx as usize], false))),
    }
}
