//! E2 — game explorer: every game of a confined material, breadth first, to fix-point (or to a turn bound).
use crate::explore::*;
use crate::families::board_from_diagram;
use crate::glue::*;
use crate::refmodel as rm;
use crate::report::{self, FamilyResult, Stats};
use arimaa_engine_step::*;
use arimaa_engine_step::{Direction, Square};
use rayon::prelude::*;
use std::collections::VecDeque;
use std::panic::{catch_unwind, AssertUnwindSafe};
use std::time::Instant;

#[derive(Clone, Debug)]
pub struct Config {
    pub name: String,
    pub diagram: String,
    pub gold_to_move: bool,
    /// squares a followed move of a Gold / Silver piece may land on
    pub dom_gold: Vec<usize>,
    pub dom_silver: Vec<usize>,
    /// wider domains used only during the first turn from the root ("funnel": one free turn, then a tiny shuffle domain)
    /// Some(order): the root is produced by these 32 real placements (diagram is then derived from it)
    pub setup: Option<String>,
    pub first_gold: Option<Vec<usize>>,
    pub first_silver: Option<Vec<usize>>,
    /// None = explore until no new state appears
    pub max_turns: Option<usize>,
    pub max_states: usize,
}

impl Config {
    /// may a followed move of a piece of this colour land on `to`?
    pub fn allowed(&self, gold_piece: bool, to: usize, first_turn: bool) -> bool {
        let d = if gold_piece {
            if first_turn { self.first_gold.as_ref().unwrap_or(&self.dom_gold) } else { &self.dom_gold }
        } else if first_turn {
            self.first_silver.as_ref().unwrap_or(&self.dom_silver)
        } else {
            &self.dom_silver
        };
        d.contains(&to)
    }
}

pub fn sq(name: &str) -> usize {
    let b = name.as_bytes();
    let f = (b[0] - b'a') as usize;
    let r = (b[1] - b'0') as usize;
    (8 - r) * 8 + f
}

pub fn sqs(names: &str) -> Vec<usize> {
    names.split_whitespace().map(sq).collect()
}

pub type GameKey = (Raw, bool, u8, u32, bool, Raw, Vec<(Raw, bool, u16)>, Vec<u64>, u64);

pub fn game_key(n: &Node) -> GameKey {
    let pp = n.gs.as_play_phase();
    let mut occ: Vec<(Raw, bool, u16)> = Vec::new();
    for (r, s) in n.hist.iter() {
        match occ.iter_mut().find(|x| x.0 == *r && x.1 == *s) {
            Some(x) => x.2 += 1,
            None => occ.push((*r, *s, 1)),
        }
    }
    occ.sort();
    let mut eh: Vec<u64> = pp.map_or(vec![], |p| p.hash_history().iter().map(|z| z.board_state_hash()).collect());
    eh.sort();
    (
        raw(n.gs.piece_board()),
        n.gold,
        n.steps as u8,
        pp.map_or(0, |p| pps_code(p.push_pull_state())),
        pp.map_or(false, |p| p.piece_trapped_this_turn()),
        n.snaps[0],
        occ,
        eh,
        n.pset.code(),
    )
}

pub fn config_json(c: &Config) -> serde_json::Value {
    serde_json::json!({
        "name": c.name, "gold_to_move": c.gold_to_move,
        "dom_gold": c.dom_gold.iter().map(|&s| rm::sq_name(s)).collect::<Vec<_>>(),
        "dom_silver": c.dom_silver.iter().map(|&s| rm::sq_name(s)).collect::<Vec<_>>(),
        "first_turn_dom_gold": c.first_gold.as_ref().map(|v| v.iter().map(|&s| rm::sq_name(s)).collect::<Vec<_>>()),
        "first_turn_dom_silver": c.first_silver.as_ref().map(|v| v.iter().map(|&s| rm::sq_name(s)).collect::<Vec<_>>()),
        "max_turns": c.max_turns,
    })
}

/// Transformation applied to a whole game for the lock-step symmetry runs (identity for plain E2).
pub fn run_config(prop: &str, checks: u32, cfg: &Config, idx: u64) -> FamilyResult {
    let t0 = Instant::now();
    let (mut board, _, mut mn) = board_from_diagram(&cfg.diagram).unwrap_or_else(|e| panic!("config {}: {}", cfg.name, e));
    let how = match &cfg.setup {
        Some(o) => {
            board = crate::families::board_of_setup(o);
            mn = 2;
            RootHow::Setup(o.clone())
        }
        // odd configurations start from a root parsed from text ("or since the position was parsed")
        None if idx % 2 == 1 => RootHow::Parsed,
        None => RootHow::Constructed,
    };
    // starting move numbers near representation boundaries (the games are long enough to cross them)
    if cfg.setup.is_none() {
        mn = [2usize, 995, 65_530, 2][(idx % 4) as usize];
    }
    let family = format!("E2 {}{}", cfg.name, match &how { RootHow::Parsed => " [root parsed with from_str]", RootHow::Setup(_) => " [root produced by 32 placements]", _ => "" });
    let root = RootInfo { how, explorer: "E2", family: family.clone(), idx, board, gold: cfg.gold_to_move, move_number: mn, config: config_json(cfg) };
    let mut ctx = Ctx::new(checks, prop, &root);
    let mut complete = true;
    let mut note = String::new();
    let mut max_turn_seen = 0usize;
    let r = catch_unwind(AssertUnwindSafe(|| {
        let n0 = root_node(&root);
        turn_start_oracles(&mut ctx, &n0, None);
        let mut seen: FxSet<GameKey> = FxSet::default();
        // queue entries carry the path (for violation artefacts) as a compact vector
        let mut queue: VecDeque<(Node, Vec<Action>)> = VecDeque::new();
        seen.insert(game_key(&n0));
        ctx.stats.states += 1;
        queue.push_back((n0, vec![]));
        while let Some((node, path)) = queue.pop_front() {
            if report::stopped() {
                break;
            }
            ctx.path = path.clone();
            let succ = visit(&mut ctx, &node);
            let turn = node.hist.len();
            max_turn_seen = max_turn_seen.max(turn);
            for s in succ {
                // confinement: follow only moves that land inside the owner's domain, and passes
                let follow = match s.action {
                    Action::Pass => true,
                    Action::Move(from, d) => {
                        let f = from.index();
                        match rm::nb(f, dir_index(d)) {
                            Some(to) => {
                                let c = node.board[f];
                                c != rm::EMPTY && cfg.allowed(rm::is_gold(c), to, node.hist.len() == 1)
                            }
                            None => false,
                        }
                    }
                    Action::Place(_) => false,
                };
                if !follow {
                    ctx.stats.add("e2_transitions_checked_but_not_followed", 1);
                    continue;
                }
                if let Some(mt) = cfg.max_turns {
                    if s.node.hist.len() > mt + 1 {
                        complete = false;
                        continue;
                    }
                }
                let key = game_key(&s.node);
                if seen.insert(key) {
                    ctx.stats.states += 1;
                    ctx.stats.digest = ctx.stats.digest.wrapping_add(sip(&game_key(&s.node)));
                    if s.node.hist.len() > node.hist.len() && s.node.gs.as_play_phase().map_or(false, |p| p.hash_history().len() < s.node.hist.len()) {
                        ctx.stats.add("e2_turn_starts_after_history_was_forgotten", 1);
                    }
                    if seen.len() > cfg.max_states {
                        complete = false;
                        note = format!("state cap {} hit: NOT explored to fix-point", cfg.max_states);
                        return;
                    }
                    let mut p = path.clone();
                    p.push(s.action);
                    queue.push_back((s.node, p));
                }
            }
        }
    }));
    if r.is_err() {
        let q = ctx.query;
        ctx.fail(&format!("panic in the engine during `{}` on a reachable state", if q.is_empty() { "(harness code)" } else { q }), last_panic(), "returns normally".into());
    }
    if cfg.max_turns.is_some() && !complete && note.is_empty() {
        note = format!("explored completely to the turn bound {} (not to fix-point)", cfg.max_turns.unwrap());
        complete = true; // complete for the stated bound
    }
    ctx.stats.roots = 1;
    ctx.stats.add("e2_sum_over_configs_of_longest_game_turns", 0);
    let longest = max_turn_seen as u64;
    let c = ctx.stats.counters.entry("e2_sum_over_configs_of_longest_game_turns").or_insert(0);
    *c = (*c).max(longest);
    ctx.stats.sample(idx, format!("confined game '{}' ({} to move; Gold domain {:?}, Silver domain {:?}; {} states, longest game {} turns):\n{}", cfg.name, if cfg.gold_to_move { "Gold" } else { "Silver" }, cfg.dom_gold.iter().map(|&s| rm::sq_name(s)).collect::<Vec<_>>(), cfg.dom_silver.iter().map(|&s| rm::sq_name(s)).collect::<Vec<_>>(), ctx.stats.states, longest, cfg.diagram));
    let stats = std::mem::take(&mut ctx.stats);
    FamilyResult { explorer: "E2".into(), family, complete: complete && !report::stopped(), note, stats, wall_s: t0.elapsed().as_secs_f64() }
}

pub fn run_configs(prop: &str, checks: u32, cfgs: &[Config]) -> Vec<FamilyResult> {
    cfgs.par_iter().enumerate().map(|(i, c)| run_config(prop, checks, c, i as u64)).collect()
}

fn diagram(rows: [&str; 8]) -> String {
    let mut s = String::from("2g\n +-----------------+\n");
    for (i, r) in rows.iter().enumerate() {
        s.push_str(&format!("{}|{}|\n", 8 - i, r));
    }
    s.push_str(" +-----------------+\n   a b c d e f g h\n");
    s
}

fn cfg(name: &str, rows: [&str; 8], gold: bool, dg: &str, ds: &str, max_turns: Option<usize>) -> Config {
    Config { name: name.into(), diagram: diagram(rows), gold_to_move: gold, dom_gold: sqs(dg), dom_silver: sqs(ds), setup: None, first_gold: None, first_silver: None, max_turns, max_states: if max_turns.is_some() { 3_000_000 } else { 600_000 } }
}

fn funnel(mut c: Config, fg: &str, fs: &str) -> Config {
    c.first_gold = Some(sqs(fg));
    c.first_silver = Some(sqs(fs));
    c
}

pub fn configs(thorough: bool) -> Vec<Config> {
    let mut v = vec![];
    // 1. strong vs weak in a 2x2 corner window; rabbits parked far away (mobile)
    v.push(cfg(
        "D a1 vs c b2, common 2x2 corner window a1-b2, rabbits parked",
        [
            "               r ", //8
            "                 ",
            "     x     x     ",
            "                 ",
            "                 ",
            "     x     x     ",
            "   c             ",
            " D             R ",
        ],
        true,
        "a1 b1 a2 b2",
        "a1 b1 a2 b2",
        None,
    ));
    // 2. equal vs equal (no freezing, no push: pure repetition play) on an L-shaped 3-square domain + one extra for Silver
    v.push(cfg(
        "C a1 vs c b2 (equal strength), Gold in {a1,b1,a2}, Silver in {b2,b1,a2,b3}, rabbits parked, all games of 9 turns",
        [
            "               r ",
            "                 ",
            "     x     x     ",
            "                 ",
            "                 ",
            "     x     x     ",
            "   c             ",
            " C             R ",
        ],
        true,
        "a1 b1 a2",
        "b2 b1 a2 b3",
        Some(9),
    ));
    // 3. captures: Gold E pushes/pulls silver c into trap c3, silver d may re-enter (history cleared at captures)
    v.push(cfg(
        "E d3 vs c c4, d b4 around trap c3 (captures clear the history, play continues)",
        [
            " r               ",
            "                 ",
            "     x     x     ",
            "                 ",
            "   d c           ",
            "     x E   x     ",
            "                 ",
            "               R ",
        ],
        true,
        "d3 d4 c3",
        "c4 c3 b4",
        None,
    ));
    // 4. split domains: Gold C in {a1,a2,a3}, Silver d in {b2,b3}; Gold's rabbit frozen elsewhere -> mid-turn dead ends
    v.push(cfg(
        "split domains: Gold C a1 in {a1,a2,a3}, Silver d b3 in {b2,b3}; Gold rabbit h1 frozen by silver d h2/g1 guard",
        [
            " r               ",
            "                 ",
            "     x     x     ",
            "                 ",
            "                 ",
            "   d x     x     ",
            "               c ",
            " C           c R ",
        ],
        true,
        "a1 a2 a3",
        "b2 b3",
        None,
    ));
    // 5. same with an extra approach square
    v.push(cfg(
        "split domains: Gold C in {a1,a2,a3,b1}, Silver d in {b1,b2,b3}; Gold rabbit frozen",
        [
            " r               ",
            "                 ",
            "     x     x     ",
            "                 ",
            "                 ",
            "   d x     x     ",
            "               c ",
            " C           c R ",
        ],
        true,
        "a1 a2 a3 b1",
        "b1 b2 b3",
        None,
    ));
    // 6. edge strip 1x4, silver to move, colour-swapped material
    v.push(cfg(
        "d e8 vs C g8 on the 1x4 strip e8-h8, Silver to move",
        [
            "         d   C   ",
            "                 ",
            "     x     x     ",
            "                 ",
            "                 ",
            "     x     x     ",
            "                 ",
            " R r             ",
        ],
        false,
        "e8 f8 g8 h8",
        "e8 f8 g8 h8",
        None,
    ));
    // 7. weak + supporter vs strong near trap f6 (supporter stepping away captures its own rabbit)
    v.push(cfg(
        "R f6 + C g6 vs e e6 at trap f6: supporter may leave, elephant may push/pull",
        [
            "                 ",
            "                 ",
            "         e R C   ",
            "                 ",
            "                 ",
            "     x     x     ",
            "                 ",
            " r             R ",
        ],
        true,
        "f6 g6 g7",
        "e6 f6 e7",
        None,
    ));
    // 8. mover whose only mobile piece can be frozen: Gold D vs silver m in a 2x2, gold rabbit blocked
    v.push(cfg(
        "D g1 vs m h2 in 2x2 corner g1-h2, Silver to move",
        [
            " r               ",
            "                 ",
            "     x     x     ",
            "                 ",
            "                 ",
            "     x     x     ",
            " R             m ",
            "             D   ",
        ],
        false,
        "g1 h1 g2 h2",
        "g1 h1 g2 h2",
        None,
    ));
    // 9. funnel: one free first turn in which a capture can fall on the FOURTH step (pull completion drags the only
    //    supporter of the cat on c3 away), then a tiny shuffle domain (E e4/e5, r h8/g8) explored to fix-point:
    //    history bookkeeping on the 'fourth step that itself captures' path
    v.push(funnel(
        cfg(
            "funnel 4th-step capture: silver c on c3 supported only by d c4; Gold E e5 may walk e5-d5-d4-e4 and complete the pull on step 4; then E e4/e5 and r h8/g8 shuffle",
            [
                "               r ",
                "                 ",
                "     x     x     ",
                "         E       ",
                "     d           ",
                "     c     x     ",
                "                 ",
                " R               ",
            ],
            true,
            "e4 e5",
            "h8 g8",
            None,
        ),
        "e5 d5 d4 e4",
        "d4 h8 g8",
    ));
    // 9b. the colour-swapped, mirrored twin with Silver to move
    v.push(funnel(
        cfg(
            "funnel 4th-step capture (Silver): gold C on f6 supported only by D f5; silver e d4 may walk d4-e4-e5-d5 and complete the pull on step 4; then e d5/d4 and R a1/b1 shuffle",
            [
                "               r ",
                "                 ",
                "     x     C     ",
                "           D     ",
                "       e         ",
                "     x     x     ",
                "                 ",
                " R               ",
            ],
            false,
            "a1 b1",
            "d5 d4",
            None,
        ),
        "e5 a1 b1",
        "d4 e4 e5 d5",
    ));
    // 10. capture on step 1-3 followed by a pass, and by a 4th step: Gold E pushes a rabbit into c3, then both shuffle
    v.push(cfg(
        "capture mid-turn then pass / 4th step: Gold E b4 pushes r c4 into c3; E and silver d shuffle afterwards",
        [
            "               r ",
            "             d   ",
            "     x     x     ",
            "                 ",
            "   E r           ",
            "     x     x     ",
            "                 ",
            "               R ",
        ],
        true,
        "b4 c4 d4",
        "c4 c3 g7 g6",
        None,
    ));
    // 10b. funnel: capture on step 1 (rabbit pushed into c3), the turn is ended by its FOURTH step, then E e4/e5 and d g7/g6 shuffle
    v.push(funnel(
        cfg(
            "funnel capture early, turn ended by 4th step: Gold E b4 pushes r c4 into c3 (captured), walks c4-d4-e4; then E e4/e5 and d g7/g6 shuffle",
            [
                "               r ",
                "             d   ",
                "     x     x     ",
                "                 ",
                "   E r           ",
                "     x     x     ",
                "                 ",
                "               R ",
            ],
            true,
            "e4 e5",
            "g7 g6",
            None,
        ),
        "c4 d4 e4",
        "c3 g7 g6",
    ));
    // 10c. a frozen army with ONE mobile piece that is pushed back and forth by a stronger enemy piece, and a weaker enemy
    //      piece it can pull: reaches step-3 states where the pass is a third repetition, every own step is frozen
    //      and the only action left is the completion of a pull (and the states around it)
    v.push(cfg(
        "frozen army, one mobile dog: D d5 pushed back by e d6, rabbit e4 can be pulled; C a1 / R h1 frozen by d a2 / c h2",
        [
            "               r ",
            "                 ",
            "     x e   x     ",
            "       D         ",
            "         r       ",
            "     x     x     ",
            " d             c ",
            " C             R ",
        ],
        false,
        "d3 d4 d5",
        "d6 d5 d4 e4",
        None,
    ));
    // 10d. its colour-swapped twin
    v.push(cfg(
        "frozen army, one mobile dog (Silver): d d4 pushed back by E d3, rabbit R e5 can be pulled; c a8 / r h8 frozen by D a7 / C h7",
        [
            " c             r ",
            " D             C ",
            "     x     x     ",
            "         R       ",
            "       d         ",
            "     x E   x     ",
            "                 ",
            "               R ",
        ],
        true,
        "d3 d4 d5 e5",
        "d6 d5 d4",
        None,
    ));
    // 10e/f. the same two with four more frozen pieces (12 pieces on the board): everything that is keyed on "many pieces"
    //        or on long lists meets the rare all-frozen / everything-withheld states here
    v.push(cfg(
        "frozen army padded to 12 pieces, one mobile dog: D d5 pushed back by e d6, rabbit e4 can be pulled; C a1 / R c1 / R f1 / R h1 frozen by d a2 / h c2 / h f2 / c h2",
        [
            "               r ",
            "                 ",
            "     x e   x     ",
            "       D         ",
            "         r       ",
            "     x     x     ",
            " d   h     h   c ",
            " C   R     R   R ",
        ],
        false,
        "d3 d4 d5",
        "d6 d5 d4 e4",
        None,
    ));
    v.push(cfg(
        "frozen army padded to 12 pieces, one mobile dog (Silver): d d4 pushed back by E d3, rabbit R e5 can be pulled; c a8 / r c8 / r f8 / r h8 frozen by D a7 / H c7 / H f7 / C h7",
        [
            " c   r     r   r ",
            " D   H     H   C ",
            "     x     x     ",
            "         R       ",
            "       d         ",
            "     x E   x     ",
            "                 ",
            "               R ",
        ],
        true,
        "d3 d4 d5 e5",
        "d6 d5 d4",
        None,
    ));
    // 10g. a dense board (18 pieces, two developed armies that never enter the corner): the equal-strength corner game
    //      of configuration 2 with long offered lists around it
    v.push(cfg(
        "dense board (18 pieces): C a1 vs c b2 (equal strength), Gold in {a1,b1,a2}, Silver in {b2,b1,a2,b3}, two developed armies elsewhere, all games of 9 turns",
        [
            "       r   h   r ",
            "         d   c   ",
            "     x m   x   h ",
            "           e     ",
            "         E       ",
            "     x   H x   M ",
            "   c       D   C ",
            " C     R   R   H ",
        ],
        true,
        "a1 b1 a2",
        "b2 b1 a2 b3",
        Some(9),
    ));
    if thorough {
        v.push(cfg(
            "dense board (18 pieces): D a1 vs c b2, common 2x2 corner window a1-b2, two developed armies elsewhere",
            [
                "       r   h   r ",
                "         d   c   ",
                "     x m   x   h ",
                "           e     ",
                "         E       ",
                "     x   H x   M ",
                "   c       C   C ",
                " D     R   R   H ",
            ],
            true,
            "a1 b1 a2 b2",
            "a1 b1 a2 b2",
            None,
        ));
    }
    // 11. repetition play right after a real setup phase (history starts with the entry written by the 32nd placement)
    {
        let mut c = cfg(
            "after a real setup (Gold hdcemcdh/rrrrrrrr, Silver rrrrrrrr/hdcmecdh): H a2 <-> a3 and h a7 <-> a6 shuffle",
            ["                 "; 8],
            true,
            "a2 a3",
            "a7 a6",
            None,
        );
        c.setup = Some("hdcemcdhrrrrrrrrrrrrrrrrhdcmecdh".to_string());
        v.push(c);
    }
    if thorough {
        v.push(cfg(
            "E d4, C e4 vs d d5 in the 2x3 window d4-e6 to 4 turns",
            [
                " r               ",
                "                 ",
                "     x     x     ",
                "       d         ",
                "       E C       ",
                "     x     x     ",
                "                 ",
                "               R ",
            ],
            true,
            "d4 e4 d5 e5 d6 e6",
            "d4 e4 d5 e5 d6 e6",
            Some(4),
        ));
    }
    v
}

/// Kind sweep: the same tiny confined game for EVERY pair (Gold type, Silver type) - so that the repetition machinery
/// (look-ahead hash of a 4th step, pass hash, history append / clear) is exercised with every piece type as the moved,
/// pushed, pulled or captured piece, for either side moving first.
/// `corner`: common 2x2 window a1-b2, Gold X on a1, Silver y on b2 (no trap: pure repetition play, pushes and pulls when
/// the strengths differ).  `trap`: common 2x2 window b3-c2 that contains trap c3, Gold X on b2, Silver y on c2 (a piece
/// that steps or is pushed / pulled onto c3 is captured, the history is forgotten, the survivor plays on).
pub fn kind_sweep(thorough: bool) -> Vec<Config> {
    let letters = ['E', 'M', 'H', 'D', 'C', 'R'];
    let mut v = vec![];
    for (gi, g) in letters.iter().enumerate() {
        for (si, sl) in letters.iter().enumerate() {
            let s = sl.to_ascii_lowercase();
            for gold_first in [true, false] {
                // quick: side to move alternates over the pairs; thorough: both
                if !thorough && gold_first != ((gi + si) % 2 == 0) {
                    continue;
                }
                let who = if gold_first { "Gold" } else { "Silver" };
                let r2 = format!("   {}             ", s);
                let r1 = format!(" {}             R ", g);
                if gi == si {
                    // equal strength: nobody is ever frozen, the common window explodes in the number of histories;
                    // L-shaped domains, every game of 9 turns
                    v.push(cfg(
                        &format!("kind sweep corner: {} a1 vs {} b2 (equal strength), Gold in {{a1,b1,a2}}, Silver in {{b2,b1,a2,b3}}, {} to move, all games of 9 turns", g, s, who),
                        ["               r ", "                 ", "     x     x     ", "                 ", "                 ", "     x     x     ", &r2, &r1],
                        gold_first,
                        "a1 b1 a2",
                        "b2 b1 a2 b3",
                        Some(9),
                    ));
                } else {
                    v.push(cfg(
                        &format!("kind sweep corner: {} a1 vs {} b2, common 2x2 window a1-b2, {} to move", g, s, who),
                        ["               r ", "                 ", "     x     x     ", "                 ", "                 ", "     x     x     ", &r2, &r1],
                        gold_first,
                        "a1 b1 a2 b2",
                        "a1 b1 a2 b2",
                        None,
                    ));
                }
                let t2 = format!("   {} {}           ", g, s);
                v.push(cfg(
                    &format!("kind sweep trap: {} b2 vs {} c2, common 2x2 window b3-c2 containing trap c3, {} to move", g, s, who),
                    ["               r ", "                 ", "     x     x     ", "                 ", "                 ", "     x     x     ", &t2, "               R "],
                    gold_first,
                    "b3 c3 b2 c2",
                    "b3 c3 b2 c2",
                    None,
                ));
            }
        }
    }
    v
}

// ---------------------------------------------------------------------------------------------------------------
// E8 - lasso games: long capture-free games that walk a cycle of positions twice and then try to enter it a third
// time.  One scripted path per lasso, but at EVERY state of the path all enabled oracles are evaluated on ALL offered
// actions (one step of look-ahead), so any turn-ending action that would be a third occurrence must be withheld and
// nothing else may be.  Reaches history lengths (hundreds of entries) that fix-point exploration cannot, which is
// where lossy summaries of the history (bounded windows, small counters, filters) go wrong.
// ---------------------------------------------------------------------------------------------------------------

/// clockwise perimeter of the 2 x k rectangle whose top-left corner is (file 0, row `top`)
fn ring(top: usize, k: usize) -> Vec<usize> {
    let mut v = vec![];
    for f in 0..k {
        v.push(top * 8 + f);
    }
    for f in (0..k).rev() {
        v.push((top + 1) * 8 + f);
    }
    v
}

fn dir_between(a: usize, b: usize) -> Direction {
    if b + 8 == a {
        Direction::Up
    } else if b == a + 8 {
        Direction::Down
    } else if b == a + 1 {
        Direction::Right
    } else {
        Direction::Left
    }
}

pub fn lasso_pairs(thorough: bool) -> Vec<(usize, usize)> {
    if thorough {
        vec![(2, 3), (3, 5), (4, 5), (5, 6), (6, 7), (7, 8), (8, 3), (8, 5), (7, 5), (6, 5)]
    } else {
        vec![(2, 3), (3, 5), (5, 6), (7, 8)]
    }
}

/// Gold E walks the perimeter of a 2 x ka rectangle on ranks 2/1, Silver e that of a 2 x kb rectangle on ranks 8/7
/// (one step and a pass per turn); rabbits parked on h4 / h5.
pub fn run_lasso(prop: &str, checks: u32, ka: usize, kb: usize, rot: usize, prefix: usize, idx: u64) -> FamilyResult {
    run_lasso_padded(prop, checks, ka, kb, rot, prefix, idx, false)
}

/// `pad`: the files to the right of both rings (one empty file in between) are filled on ranks 1-2 with Gold's and on
/// ranks 7-8 with Silver's remaining pieces: the same long cyclic histories on a board with many pieces and long lists.
pub fn run_lasso_padded(prop: &str, checks: u32, ka: usize, kb: usize, rot: usize, prefix: usize, idx: u64, pad: bool) -> FamilyResult {
    let t0 = Instant::now();
    let ga = ring(6, ka);
    let sb = ring(0, kb);
    let (la, lb) = (ga.len(), sb.len());
    let lcm = {
        let g = {
            let (mut x, mut y) = (la, lb);
            while y != 0 {
                let t = x % y;
                x = y;
                y = t;
            }
            x
        };
        la / g * lb
    };
    let mut board = [rm::EMPTY; 64];
    // rotation: the root is the position reached after `rot` turns of the walk (so that EVERY position of the cycle
    // is, in some lasso, the one whose third occurrence is attempted)
    let (gi0, si0) = ((rot + 1) / 2, rot / 2);
    board[ga[gi0 % la]] = rm::cell(true, 5);
    board[sb[si0 % lb]] = rm::cell(false, 5);
    board[sq("h3")] = rm::cell(true, 0);
    board[sq("h6")] = rm::cell(false, 0);
    // two cats that make `prefix` irreversible single-step turns before the walk starts (Gold C a4 eastwards, Silver c
    // h5 westwards): shifts where in the history the cycle's positions fall, so that every alignment is exercised
    let gold_cat: Vec<usize> = (0..7).map(|f| 4 * 8 + f).collect();
    let silver_cat: Vec<usize> = (0..7).map(|f| 3 * 8 + 7 - f).collect();
    board[gold_cat[0]] = rm::cell(true, 1);
    board[silver_cat[0]] = rm::cell(false, 1);
    let mut padded = 0usize;
    if pad {
        // strengths: M 4, H 3, H 3, D 2, D 2, C 1, then rabbits (one rabbit and one cat of each side are already placed)
        let army: [u8; 13] = [4, 3, 3, 2, 2, 1, 0, 0, 0, 0, 0, 0, 0];
        let first_file = ka.max(kb) + 1;
        for gold in [true, false] {
            let mut n = 0;
            for f in first_file..8 {
                for row in if gold { [6usize, 7] } else { [1usize, 0] } {
                    if n < army.len() && board[row * 8 + f] == rm::EMPTY {
                        board[row * 8 + f] = rm::cell(gold, army[n]);
                        n += 1;
                        padded += 1;
                    }
                }
            }
        }
    }
    // starting move number: mostly 2, some lassos start just below 1000, 65536 and 2^32 and cross them
    let lasso_mn = [2usize, 2, 980, 2, 65_500, 2, (1usize << 32) - 40, 2][(rot + prefix) % 8];
    let family = format!("E8 lassos: Gold E round a {}-square ring (a2..), Silver e round a {}-square ring (a8..), one step + pass per turn; cycle of {} turn-start positions walked twice from EVERY one of its positions as root (small rings: after 0..=12 irreversible prefix turns by two cats), third entry attempted{}", la, lb, 2 * lcm, if pad { format!("; PADDED with {} further pieces on the free files of the home ranks", padded) } else { String::new() });
    let root = RootInfo { how: if idx % 2 == 1 { RootHow::Parsed } else { RootHow::Constructed }, explorer: "E8", family: family.clone(), idx, board, gold: rot % 2 == 0, move_number: lasso_mn, config: serde_json::json!({"ring_gold": la, "ring_silver": lb, "rotation": rot, "prefix_turns": prefix, "starting_move_number": lasso_mn}) };
    let mut ctx = Ctx::new(checks, prop, &root);
    let mut complete = true;
    let mut note = String::new();
    let r = catch_unwind(AssertUnwindSafe(|| {
        let mut node = root_node(&root);
        turn_start_oracles(&mut ctx, &node, None);
        let (mut gi, mut si) = (gi0, si0);
        let total_turns = prefix + 4 * lcm; // the position after the prefix is occurrence 1; closing the second lap would be its third
        let (mut gc, mut sc) = (0usize, 0usize);
        let mut third_lap_withheld = 0u64;
        for turn in 0..total_turns {
            let gold = (turn + rot) % 2 == 0;
            let in_prefix = turn < prefix;
            let (from, to) = if in_prefix {
                if gold {
                    gc += 1;
                    (gold_cat[gc - 1], gold_cat[gc])
                } else {
                    sc += 1;
                    (silver_cat[sc - 1], silver_cat[sc])
                }
            } else if gold {
                (ga[gi % la], ga[(gi + 1) % la])
            } else {
                (sb[si % lb], sb[(si + 1) % lb])
            };
            let step = Action::Move(Square::from_index(from as u8), dir_between(from, to));
            // the step
            ctx.stats.states += 1;
            let succ = visit(&mut ctx, &node);
            let next = match succ.into_iter().find(|s| s.action == step) {
                Some(s) => s.node,
                None => {
                    complete = false;
                    note = format!("scripted step {} not offered at turn {}", step, turn);
                    return;
                }
            };
            ctx.path.push(step);
            // the pass (expected to be withheld exactly from the third lap on)
            ctx.stats.states += 1;
            let succ = visit(&mut ctx, &next);
            match succ.into_iter().find(|s| s.action == Action::Pass) {
                Some(s) => {
                    node = s.node;
                    ctx.path.push(Action::Pass);
                }
                None => {
                    if turn + 1 >= 4 * lcm {
                        third_lap_withheld += 1;
                        // take a different way on: two ring steps and a pass lead to a position not seen before
                        break;
                    }
                    complete = false;
                    note = format!("pass not offered at turn {} (before the third lap)", turn);
                    return;
                }
            }
            if !in_prefix {
                if gold {
                    gi += 1;
                } else {
                    si += 1;
                }
            }
        }
        ctx.stats.add("e8_third_lap_passes_withheld", third_lap_withheld);
        ctx.stats.add("e8_longest_history", node.hist.len() as u64);
    }));
    if r.is_err() {
        let q = ctx.query;
        ctx.fail(&format!("panic in the engine during `{}` on a reachable state", if q.is_empty() { "(harness code)" } else { q }), last_panic(), "returns normally".into());
    }
    ctx.stats.roots = 1;
    ctx.stats.sample(idx, format!("lasso {}x{}: {} turns played, every state's full offered list checked", la, lb, 4 * lcm + 2));
    let stats = std::mem::take(&mut ctx.stats);
    FamilyResult { explorer: "E8".into(), family, complete: complete && !report::stopped(), note, stats, wall_s: t0.elapsed().as_secs_f64() }
}

pub fn run_lassos(prop: &str, checks: u32, thorough: bool) -> Vec<FamilyResult> {
    // the long histories matter for the properties that read the history (repetition rules, summary queries, recorded
    // hashes, move number); the others get the smallest ring pair in the quick tier
    let history_property = matches!(prop, "C03" | "C05" | "C06" | "C07" | "C08");
    let pairs = if thorough || history_property { lasso_pairs(thorough) } else { vec![(2, 3)] };
    let mut out = vec![];
    for (pi, &(a, b)) in pairs.iter().enumerate() {
        let (la, lb) = (2 * a, 2 * b);
        let g = {
            let (mut x, mut y) = (la, lb);
            while y != 0 {
                let t = x % y;
                x = y;
                y = t;
            }
            x
        };
        let cycle = 2 * (la / g * lb);
        // the small rings additionally with 1..=12 irreversible prefix turns (all alignments of the cycle in the history)
        let max_prefix = if cycle <= 60 || thorough { 12 } else { 0 };
        let jobs: Vec<(usize, usize)> = (0..cycle).flat_map(|rot| (0..=max_prefix).map(move |p| (rot, p))).collect();
        let mut rs: Vec<FamilyResult> = jobs.par_iter().map(|&(rot, p)| run_lasso(prop, checks, a, b, rot, p, (pi * 100_000 + rot * 100 + p) as u64)).collect();
        if a.max(b) <= 5 && (history_property || thorough) {
            // the same lassos on a board with many pieces (free files of the home ranks filled)
            let rp: Vec<FamilyResult> = jobs.par_iter().map(|&(rot, p)| run_lasso_padded(prop, checks, a, b, rot, p, (50_000_000 + pi * 100_000 + rot * 100 + p) as u64, true)).collect();
            let mut it = rp.into_iter();
            let mut first = it.next().unwrap();
            for r in it {
                first.complete &= r.complete;
                if !r.note.is_empty() {
                    first.note = r.note.clone();
                }
                first.wall_s += r.wall_s;
                first.stats = std::mem::take(&mut first.stats).merge(r.stats);
            }
            out.push(first);
        }
        let _ = &mut rs;
        // fold the rotations of one ring pair into one family row
        let mut it = rs.into_iter();
        let mut first = it.next().unwrap();
        for r in it {
            first.complete &= r.complete;
            if !r.note.is_empty() {
                first.note = r.note.clone();
            }
            first.wall_s += r.wall_s;
            first.stats = std::mem::take(&mut first.stats).merge(r.stats);
        }
        out.push(first);
    }
    out
}


// ---------------------------------------------------------------------------------------------------------------
// E9 - seed shuffles: the repetition rules on DENSE boards.  From every full-board seed (both sides to move) two
// pieces per side shuffle back and forth so that a cycle of four turn-start positions is walked twice and the third
// entry is attempted.  The side on move at the root ends its turns by a pass (step, pass); the other side either does
// the same (`four == false`: the third occurrence would be produced by a pass) or plays four-step turns a, a', a, c
// (`four == true`: the third occurrence would be produced by a FOURTH STEP).  One scripted path per (seed, side,
// candidate, variant), but every enabled oracle is evaluated on all offered actions of every state on it.
// ---------------------------------------------------------------------------------------------------------------

/// reversible single steps (from, dir, to) of non-rabbit pieces of `gold` onto empty squares that are not traps and not
/// next to a trap (a shuffle must not capture anything), at most one per piece, in board order; `rot` rotates the
/// direction preference (so that the scripted turn-ending steps sit at different places of the generated lists)
fn shuffle_candidates(b: &rm::Board, gold: bool, rot: usize) -> Vec<(usize, usize, usize)> {
    // not from / onto a trap square, and not a piece that is the only friendly neighbour of a piece standing on a trap
    // (a shuffle must not capture anything; whatever else goes wrong is caught on the path, which is then abandoned)
    let sole_guard = |i: usize| (0..4).any(|d| rm::nb(i, d).map_or(false, |t| rm::is_trap(t) && b[t] != rm::EMPTY && rm::is_gold(b[t]) == gold && (0..4).filter(|&e| rm::nb(t, e).map_or(false, |n| b[n] != rm::EMPTY && rm::is_gold(b[n]) == gold)).count() == 1));
    let mut v: Vec<(usize, usize, usize)> = vec![];
    for from in 0..64usize {
        let c = b[from];
        if c == rm::EMPTY || rm::is_gold(c) != gold || rm::strength(c) == rm::RABBIT || rm::is_trap(from) || sole_guard(from) || rm::frozen(b, from) {
            continue;
        }
        for dd in 0..4 {
            let d = (dd + rot) % 4;
            if let Some(to) = rm::nb(from, d) {
                // the target must be empty, not a trap, and not the target of another candidate
                if b[to] == rm::EMPTY && !rm::is_trap(to) && !v.iter().any(|x| x.2 == to) {
                    v.push((from, d, to));
                    break;
                }
            }
        }
    }
    v
}

pub fn shuffle_candidates_pub(b: &rm::Board, gold: bool) -> usize {
    shuffle_candidates(b, gold, 0).len()
}

/// E9: `k` Gray-code pieces per side => a cycle of 2 * 2^k turn-start positions; walked twice, third entry attempted:
/// the history then holds 4 * 2^k + 1 entries (k = 3: 33) on a dense board.
pub fn run_seed_shuffles(prop: &str, checks: u32, thorough: bool) -> Vec<FamilyResult> {
    let t0 = Instant::now();
    let fam = crate::families::fs_variants(&crate::verif_dir().join("seeds"), 1, 1);
    let ks: Vec<usize> = if thorough { vec![1, 2, 3, 4] } else { vec![1, 2, 3] };
    let rots: Vec<usize> = vec![0, 1, 2, 3];
    let family = format!("E9 seed shuffles: from each of the {} full-board seed roots, k in {:?} pieces per side step out and back in Gray-code order (mover: step + pass; other side: step + pass, or four-step turns f f' f x) so that a cycle of 2*2^k turn-start positions is walked twice and the third entry is attempted (history of 4*2^k+1 entries on a dense board); direction preferences {:?}", fam.n, ks, rots);
    // `off`: which of the candidate pieces are used (a window sliding over the candidate list)
    let offs: Vec<usize> = if thorough { (0..8).collect() } else { (0..5).collect() };
    let mut jobs: Vec<(u64, usize, bool, usize, usize)> = vec![];
    for i in 0..fam.n {
        for &k in ks.iter() {
            for four in [false, true] {
                for &rot in rots.iter() {
                    for &off in offs.iter() {
                        jobs.push((i, k, four, rot, off));
                    }
                }
            }
        }
    }
    let stats = jobs
        .par_iter()
        .map(|&(idx, k, four, rot, off)| {
            let (board, gold) = match (fam.decode)(idx) {
                Some(x) => x,
                None => return Stats::default(),
            };
            let e9_mn = [2usize, 990, 65_520, (1usize << 32) - 30][(rot + off) % 4];
            let root = RootInfo { how: if idx % 2 == 1 { RootHow::Parsed } else { RootHow::Constructed }, explorer: "E9", family: family.clone(), idx, board, gold, move_number: e9_mn, config: serde_json::json!({"gray_pieces_per_side": k, "other_side_plays_four_step_turns": four, "direction_preference_rotation": rot, "candidate_offset": off}) };
            let mut ctx = Ctx::new(checks, prop, &root);
            let mut mover = shuffle_candidates(&board, gold, rot);
            let mut other = shuffle_candidates(&board, !gold, rot);
            mover.drain(..off.min(mover.len()));
            other.drain(..off.min(other.len()));
            // the other side needs one more piece (the filler of its four-step turns)
            if mover.len() < k || other.len() < k + four as usize {
                ctx.stats.add("e9_paths_without_candidates", 1);
                return std::mem::take(&mut ctx.stats);
            }
            let period = 1usize << k;
            // reflected Gray code: the i-th toggle flips bit trailing_zeros(i + 1); the last one closes the cycle
            let gray = |i: usize| -> usize { if i % period == period - 1 { k - 1 } else { ((i % period) + 1).trailing_zeros() as usize } };
            let fwd = |x: (usize, usize, usize)| action_of(x.0, x.1);
            let back = |x: (usize, usize, usize)| action_of(x.2, (x.1 + 2) % 4);
            let pieces0 = board.iter().filter(|&&c| c != rm::EMPTY).count();
            let total_turns = 2 * 2 * period * 2; // two laps are completed after 4 * 2^k turns; a margin for the third
            let r = catch_unwind(AssertUnwindSafe(|| {
                let mut node = root_node(&root);
                turn_start_oracles(&mut ctx, &node, None);
                let mut out_m = vec![false; k];
                let mut out_o = vec![false; k];
                let mut filler_out = false;
                let mut withheld = false;
                'game: for turn in 0..total_turns {
                    let movers_turn = turn % 2 == 0;
                    let t = turn / 2;
                    let j = gray(t);
                    let mut script: Vec<Action> = vec![];
                    if movers_turn {
                        script.push(if out_m[j] { back(mover[j]) } else { fwd(mover[j]) });
                        out_m[j] = !out_m[j];
                        script.push(Action::Pass);
                    } else {
                        if four {
                            let f = other[k];
                            let (a, b) = if filler_out { (back(f), fwd(f)) } else { (fwd(f), back(f)) };
                            script.extend([a, b, a]);
                            filler_out = !filler_out;
                        }
                        script.push(if out_o[j] { back(other[j]) } else { fwd(other[j]) });
                        out_o[j] = !out_o[j];
                        if !four {
                            script.push(Action::Pass);
                        }
                    }
                    let second_lap_done = turn + 1 >= 4 * period;
                    for (si, want) in script.iter().enumerate() {
                        ctx.stats.states += 1;
                        let succ = visit(&mut ctx, &node);
                        match succ.into_iter().find(|s| s.action == *want) {
                            Some(s) => {
                                if s.node.board.iter().filter(|&&c| c != rm::EMPTY).count() != pieces0 {
                                    ctx.stats.add("e9_paths_abandoned", 1);
                                    break 'game;
                                }
                                node = s.node;
                                ctx.path.push(*want);
                            }
                            None => {
                                if second_lap_done && si + 1 == script.len() {
                                    withheld = true;
                                } else {
                                    ctx.stats.add("e9_paths_abandoned", 1);
                                }
                                break 'game;
                            }
                        }
                    }
                }
                if withheld {
                    ctx.stats.add(if four { "e9_third_occurrence_by_fourth_step_withheld" } else { "e9_third_occurrence_by_pass_withheld" }, 1);
                    ctx.stats.max("e9_longest_history_at_a_withheld_third_occurrence", node.hist.len() as u64);
                    let n_rule_only = node.gs.valid_actions_no_rep().len() as u64;
                    if node.hist.len() > 16 {
                        ctx.stats.max(if four { "e9_longest_rule_only_list_at_a_withheld_fourth_step_with_history_over_16" } else { "e9_longest_rule_only_list_at_a_withheld_pass_with_history_over_16" }, n_rule_only);
                    }
                }
            }));
            if r.is_err() {
                let q = ctx.query;
                ctx.fail(&format!("panic in the engine during `{}` on a reachable state", if q.is_empty() { "(harness code)" } else { q }), last_panic(), "returns normally".into());
            }
            ctx.stats.roots = 1;
            if idx < 4 && rot == 0 && off == 0 && k == ks[0] {
                ctx.stats.sample(idx * 2 + four as u64, format!("seed root #{} ({} to move), {} Gray piece(s) per side, first shuffle steps {} / {}{}:\n{}", idx, if gold { "Gold" } else { "Silver" }, k, fwd(mover[0]), fwd(other[0]), if four { " (four-step turns)" } else { "" }, rm::diagram(&board, gold, 2)));
            }
            std::mem::take(&mut ctx.stats)
        })
        .reduce(Stats::default, Stats::merge);
    vec![FamilyResult { explorer: "E9".into(), family, complete: !report::stopped(), note: String::new(), stats, wall_s: t0.elapsed().as_secs_f64() }]
}
