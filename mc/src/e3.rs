//! E3 — setup explorer: the placement trie from GameState::initial(), on the real engine.
use crate::explore::*;
use crate::glue::*;
use crate::refmodel as rm;
use crate::report::{self, FamilyResult, Stats, Violation};
use arimaa_engine_step::*;
use rayon::prelude::*;
use std::panic::{catch_unwind, AssertUnwindSafe};
use std::time::Instant;

/// placement order of squares: Gold a2..h2, a1..h1; Silver a8..h8, a7..h7
pub fn placement_square(gold: bool, k: usize) -> usize {
    if gold {
        if k < 8 {
            48 + k
        } else {
            56 + (k - 8)
        }
    } else if k < 8 {
        k
    } else {
        8 + (k - 8)
    }
}

/// kinds in strength order R C D H M E with the Arimaa complement
pub const COMPLEMENT: [u8; 6] = [8, 2, 2, 2, 1, 1];

pub struct E3Ctx<'a> {
    pub prop: &'a str,
    pub checks: u32,
    pub family: String,
    pub prefix: Vec<Action>,
    pub path: Vec<Action>,
    pub query: &'static str,
    pub stats: Stats,
    pub max_depth: usize,
    pub job: u64,
}

impl<'a> E3Ctx<'a> {
    fn on(&self, c: u32) -> bool {
        self.checks & c != 0
    }
    fn fail(&mut self, extra: Option<&Action>, what: &str, observed: String, expected: String) {
        let mut actions: Vec<String> = self.prefix.iter().chain(self.path.iter()).map(|a| a.to_string()).collect();
        if let Some(a) = extra {
            actions.push(a.to_string());
        }
        report::report(Violation {
            property: self.prop.to_string(),
            explorer: "E3".into(),
            family: self.family.clone(),
            root_idx: self.job,
            root: "initial".into(),
            config: serde_json::Value::Null,
            actions,
            what: what.to_string(),
            observed,
            expected,
        });
    }
}

pub const C09: u32 = 1 << 9;

thread_local! {
    /// the engine query in progress on this worker thread (survives the unwinding of whichever context set it)
    pub static E3_QUERY: std::cell::Cell<&'static str> = std::cell::Cell::new("");
}

/// Visits a setup node: `gold` places its `k`-th piece (0-based) next; `left` = remaining complement of the mover.
fn node(ctx: &mut E3Ctx, gs: &GameState, gold: bool, k: usize, left: &mut [u8; 6], depth: usize) {
    if report::stopped() {
        return;
    }
    ctx.stats.states += 1;
    ctx.query = "valid_actions";
    E3_QUERY.with(|q| q.set("valid_actions"));
    let va = gs.valid_actions();
    ctx.query = "";
    E3_QUERY.with(|q| q.set(""));
    let before = raw(gs.piece_board());

    if ctx.on(C09) {
        // offered == kinds with remaining complement (any order, no duplicates)
        let mut offered = [0u8; 6];
        let mut bad = false;
        for a in va.iter() {
            match a {
                Action::Place(p) => offered[piece_strength(*p) as usize] += 1,
                _ => bad = true,
            }
        }
        for t in 0..6 {
            if offered[t] != (left[t] > 0) as u8 {
                bad = true;
            }
        }
        if bad {
            ctx.fail(None, "C09: offered placements are not exactly the piece types with remaining complement", actions_text(&va), format!("remaining R C D H M E = {:?}", left));
        }
        if gs.is_play_phase() || gs.is_p1_turn_to_move() != gold || gs.move_number() != 1 {
            ctx.fail(None, "C09: setup node has wrong phase / side / move number", format!("play_phase={} gold_to_move={} move={}", gs.is_play_phase(), gs.is_p1_turn_to_move(), gs.move_number()), format!("setup, gold_to_move={}, move 1", gold));
        }
    }
    if ctx.on(C07) || ctx.on(C04) {
        ctx.query = "is_terminal";
    E3_QUERY.with(|q| q.set("is_terminal"));
        let t = gs.is_terminal();
        ctx.query = "";
    E3_QUERY.with(|q| q.set(""));
        if t.is_some() {
            ctx.fail(None, "a result is reported during setup", format!("{:?}", t), "None".into());
        }
        if va.is_empty() {
            ctx.fail(None, "C07: no result reported but no placement offered", "empty".into(), "non-empty".into());
        }
        ctx.query = "has_move";
    E3_QUERY.with(|q| q.set("has_move"));
        if gs.has_move(gs.piece_board()).is_some() != va.is_empty() {
            ctx.fail(None, "C07: has_move disagrees with the offered list in setup", String::new(), String::new());
        }
        if gs.can_pass(true) || gs.can_pass(false) {
            ctx.fail(None, "C07: can_pass true in setup although no pass is offered", "true".into(), "false".into());
        }
        ctx.query = "";
    E3_QUERY.with(|q| q.set(""));
    }
    if ctx.on(C19) {
        ctx.query = "queries";
    E3_QUERY.with(|q| q.set("queries"));
        let _ = gs.valid_actions_no_rep();
        let _ = gs.is_terminal();
        let _ = gs.can_pass(true);
        let _ = gs.can_pass(false);
        let _ = gs.has_move(gs.piece_board());
        let _ = gs.transposition_hash();
        if depth % 4 == 0 {
            std::hint::black_box(gs.to_string());
        }
        for a in va.iter() {
            let _ = gs.trapped_animal_for_action(a);
        }
        // the plain accessors documented for the setup phase (piece_board_for_step / current_step are play-phase only)
        let pb = gs.piece_board();
        let mut acc = gs.is_play_phase() as u64 + gs.is_p1_turn_to_move() as u64 + gs.move_number() as u64 + gs.as_play_phase().is_some() as u64;
        acc ^= pb.placement_bit() ^ pb.trapped_piece_bits() ^ pb.player_piece_mask(true) ^ pb.player_piece_mask(false);
        for &p in PIECES.iter() {
            acc ^= pb.bits_for_piece(p, true) ^ pb.bits_for_piece(p, false) ^ pb.bits_by_piece_type(p);
        }
        std::hint::black_box(acc);
        ctx.query = "";
    E3_QUERY.with(|q| q.set(""));
        ctx.stats.add("c19_queries", 7 + va.len() as u64);
    }
    if ctx.on(C10) {
        if let Some((w, o, e)) = c10_views(&mut ctx.stats, gs, false) {
            ctx.fail(None, &w, o, e);
        }
    }
    if ctx.on(PARSE_LINK) {
        // C15 on a setup state: the printed diagram parses to a start-of-turn state with the same board, side, move number and print
        ctx.query = "to_string";
        let text = gs.to_string();
        ctx.query = "from_str";
        let parsed = text.parse::<GameState>();
        ctx.query = "";
        ctx.stats.add("parse_links", 1);
        match parsed {
            Err(e) => ctx.fail(None, "printed setup state does not parse", e.to_string(), "Ok".into()),
            Ok(u) => {
                let ok = raw(u.piece_board()) == before && u.is_p1_turn_to_move() == gs.is_p1_turn_to_move() && u.move_number() == gs.move_number() && u.to_string() == text && u.as_play_phase().map_or(false, |p| p.step() == 0 && p.push_pull_state() == PushPullState::None);
                if !ok {
                    ctx.fail(None, "parse(print(s)) of a setup state differs from s (board / side / move number / print / start-of-turn)", u.to_string(), text);
                }
            }
        }
    }
    if ctx.on(C18) {
        ctx.stats.add("c18_states_fingerprinted_before_and_after", 1);
    }
    let fp = if ctx.on(C18) { fingerprint(gs) } else { 0 };

    for a in va.iter() {
        let p = match a {
            Action::Place(p) => *p,
            _ => continue,
        };
        let t_idx = piece_strength(p) as usize;
        let over_complement = left[t_idx] == 0;
        if over_complement && ctx.on(C09) {
            continue; // already reported above under C09; do not descend
        }
        if ctx.on(C13) {
            ctx.query = "trapped_animal_for_action";
    E3_QUERY.with(|q| q.set("trapped_animal_for_action"));
            let pv = gs.trapped_animal_for_action(a);
            ctx.query = "";
    E3_QUERY.with(|q| q.set(""));
            if pv.is_some() {
                ctx.fail(Some(a), "C13: capture preview for a placement", format!("{:?}", pv), "None".into());
            }
            ctx.stats.add("c13_pairs", 1);
        }
        ctx.query = "take_action";
    E3_QUERY.with(|q| q.set("take_action"));
        let t = gs.take_action(a);
        ctx.query = "";
    E3_QUERY.with(|q| q.set(""));
        ctx.stats.transitions += 1;
        let after = raw(t.piece_board());
        let sq = placement_square(gold, k);
        let last_of_side = k == 15;
        if ctx.on(C09) || ctx.on(C13) || ctx.on(C02) {
            let mut exp = before;
            let bit = 1u64 << sq;
            if gold {
                exp[0] |= bit;
            }
            exp[1] |= bit;
            exp[7 - t_idx] |= bit;
            if after != exp {
                ctx.fail(Some(a), "C09: a placement must put the chosen type in the mover's colour on the next free home square and change nothing else", format!("{:?}", after), format!("{:?} ({} on {})", exp, rm::cell_letter(rm::cell(gold, t_idx as u8)), rm::sq_name(sq)));
            }
        }
        let (ngold, nk) = if last_of_side { (!gold, 0) } else { (gold, k + 1) };
        let starts_play = last_of_side && !gold;
        if ctx.on(C09) || ctx.on(C03) {
            if !starts_play {
                if t.is_play_phase() || t.is_p1_turn_to_move() != ngold || t.move_number() != 1 {
                    ctx.fail(Some(a), "C09: side to move / phase / move number after a placement", format!("play={} gold_to_move={} move={}", t.is_play_phase(), t.is_p1_turn_to_move(), t.move_number()), format!("setup, gold_to_move={}, move 1", ngold));
                }
            } else {
                let ok = t.is_play_phase()
                    && t.is_p1_turn_to_move()
                    && t.move_number() == 2
                    && t.as_play_phase().map_or(false, |p| p.step() == 0 && p.push_pull_state() == PushPullState::None && p.previous_piece_boards().is_empty() && !p.piece_trapped_this_turn());
                if !ok {
                    ctx.fail(Some(a), "C09: after Silver's sixteenth placement play must begin with Gold to move, move 2, step 0, nothing pending", format!("play={} gold_to_move={} move={}", t.is_play_phase(), t.is_p1_turn_to_move(), t.move_number()), "play phase, Gold, 2, 0, None".into());
                }
                ctx.stats.add("c09_complete_setups", 1);
            }
        }
        if starts_play {
            leaf(ctx, &t, a);
        } else if depth + 1 <= ctx.max_depth {
            // (an offered placement beyond the complement is followed too: it leads to a reachable state)
            if !over_complement {
                left[t_idx] -= 1;
            }
            ctx.path.push(*a);
            if last_of_side {
                let mut nl = COMPLEMENT;
                node(ctx, &t, ngold, nk, &mut nl, depth + 1);
            } else {
                node(ctx, &t, ngold, nk, left, depth + 1);
            }
            ctx.path.pop();
            if !over_complement {
                left[t_idx] += 1;
            }
        }
    }
    if ctx.on(C18) && fingerprint(gs) != fp {
        ctx.fail(None, "C18: a state was modified by being queried / expanded", String::new(), String::new());
    }
}

fn leaf(ctx: &mut E3Ctx, t: &GameState, via: &Action) {
    ctx.stats.add("e3_leaves", 1);
    if ctx.on(C08) || ctx.on(C09) {
        if let Some(pp) = t.as_play_phase() {
            let scratch = Zobrist::from_piece_board(t.piece_board(), true, 0);
            if t.transposition_hash() != scratch.board_state_hash() || pp.hash_history().iter().any(|z| *z != scratch) {
                ctx.fail(Some(via), "C08: a finished setup does not hash like the same position built from scratch / a recorded start-of-turn hash is not the hash of the only position played so far", format!("{:016x}", t.transposition_hash()), format!("{:016x}", scratch.board_state_hash()));
            }
        }
    }
    if ctx.on(C07) {
        if t.is_terminal().is_none() && t.valid_actions().is_empty() {
            ctx.fail(Some(via), "C07: no result reported but no action offered after setup", String::new(), String::new());
        }
    }
    if ctx.on(PARSE_LINK) {
        let text = t.to_string();
        ctx.stats.add("parse_links", 1);
        match text.parse::<GameState>() {
            Err(e) => ctx.fail(Some(via), "printed position after setup does not parse", e.to_string(), "Ok".into()),
            Ok(u) => {
                if u.transposition_hash() != t.transposition_hash() || !(u == *t) || raw(u.piece_board()) != raw(t.piece_board()) || u.move_number() != 2 || !u.is_p1_turn_to_move() || u.to_string() != text {
                    ctx.fail(Some(via), "a finished setup and the same position parsed from its text differ (hash / == / board / move number / print)", format!("{:016x}", u.transposition_hash()), format!("{:016x}", t.transposition_hash()));
                }
            }
        }
    }
}

/// Named Gold arrangements used as prefixes for Silver tries (placement orders, 16 letters).
pub fn gold_setups(n: usize) -> Vec<String> {
    let base = ["rrrrrrrrcdhmehdc", "cdhmehdcrrrrrrrr", "rhrdrcremrcrdrhr", "ehmdcrrrrrrrrcdh", "rrcdhemhdcrrrrrr", "hdcrrrrrrrrcdhem"];
    let mut out: Vec<String> = vec![];
    for b in base.iter() {
        let chars: Vec<char> = b.chars().collect();
        for rot in 0..16 {
            let mut v: Vec<char> = chars[rot..].to_vec();
            v.extend_from_slice(&chars[..rot]);
            out.push(v.iter().collect());
            let mut r = v.clone();
            r.reverse();
            out.push(r.iter().collect());
        }
    }
    out.sort();
    out.dedup();
    // keep the two classic ones first
    let mut res: Vec<String> = vec![base[0].to_string(), base[1].to_string()];
    for s in out {
        if !res.contains(&s) {
            res.push(s);
        }
    }
    res.truncate(n);
    res
}

/// Complete trie of the side to move after `prefix` (a legal placement sequence), down to `max_depth` further placements.
pub fn run_trie(prop: &str, checks: u32, prefix_text: &str, max_depth: usize, label: &str) -> FamilyResult {
    let t0 = Instant::now();
    let prefix: Vec<Action> = prefix_text.chars().map(|c| c.to_string().parse::<Action>().expect("placement letter")).collect();
    let family = format!("E3 {} (prefix of {} placements, then every placement order to depth {})", label, prefix.len(), max_depth);
    // split into jobs at depth 4 (or less)
    let split = 4.min(max_depth);
    let mut jobs: Vec<Vec<Action>> = vec![vec![]];
    {
        // enumerate legal prefixes of length `split` using the harness's own complement counter
        let gold_turn = prefix.len() < 16;
        let placed: Vec<Action> = if gold_turn { prefix.clone() } else { prefix[16..].to_vec() };
        let mut left0 = COMPLEMENT;
        for a in placed.iter() {
            if let Action::Place(p) = a {
                left0[piece_strength(*p) as usize] -= 1;
            }
        }
        let k0 = placed.len();
        for d in 0..split {
            let mut next = vec![];
            for j in jobs.iter() {
                let mut left = left0;
                for a in j.iter() {
                    if let Action::Place(p) = a {
                        left[piece_strength(*p) as usize] -= 1;
                    }
                }
                if k0 + d >= 16 {
                    next.push(j.clone());
                    continue;
                }
                for (t, p) in PIECES.iter().enumerate() {
                    if left[t] > 0 {
                        let mut n = j.clone();
                        n.push(Action::Place(*p));
                        next.push(n);
                    }
                }
            }
            jobs = next;
        }
        jobs.sort();
        jobs.dedup();
    }
    let fam2 = family.clone();
    let prefix2 = prefix.clone();
    // the nodes above the split level are visited by job 0 only (so that each node is counted once)
    let stats = jobs
        .par_iter()
        .enumerate()
        .fold(Stats::default, |acc, (ji, job)| {
            if report::stopped() {
                return acc;
            }
            let mut ctx = E3Ctx { prop, checks, family: fam2.clone(), prefix: prefix2.clone(), path: vec![], query: "", stats: Stats::default(), max_depth, job: ji as u64 };
            let r = catch_unwind(AssertUnwindSafe(|| {
                // replay prefix + job with the real engine
                let mut gs = GameState::initial();
                for a in prefix2.iter() {
                    gs = gs.take_action(a);
                }
                let gold = prefix2.len() < 16;
                let mut k = if gold { prefix2.len() } else { prefix2.len() - 16 };
                let mut left = COMPLEMENT;
                let placed: &[Action] = if gold { &prefix2[..] } else { &prefix2[16..] };
                for a in placed.iter() {
                    if let Action::Place(p) = a {
                        left[piece_strength(*p) as usize] -= 1;
                    }
                }
                if ji == 0 {
                    // visit the shared upper levels once, without descending below the split level
                    let mut upper = E3Ctx { prop, checks, family: fam2.clone(), prefix: prefix2.clone(), path: vec![], query: "", stats: Stats::default(), max_depth: split.saturating_sub(1), job: 0 };
                    if split > 0 {
                        let mut l2 = left;
                        node(&mut upper, &gs, gold, k, &mut l2, 0);
                    }
                    ctx.stats = std::mem::take(&mut ctx.stats).merge(upper.stats);
                }
                for a in job.iter() {
                    gs = gs.take_action(a);
                    if let Action::Place(p) = a {
                        left[piece_strength(*p) as usize] -= 1;
                    }
                    k += 1;
                    ctx.path.push(*a);
                }
                if k >= 16 {
                    return;
                }
                node(&mut ctx, &gs, gold, k, &mut left, job.len());
            }));
            if r.is_err() {
                let q = E3_QUERY.with(|q| q.get());
                ctx.fail(None, &format!("panic in the engine during `{}` in setup", q), last_panic(), "returns normally".into());
            }
            ctx.stats.roots = 1;
            if ji == 0 {
                ctx.stats.sample(0, format!("setup sub-trie below placements [{}] + [{}]", prefix_text, actions_text(job)));
            }
            acc.merge(ctx.stats)
        })
        .reduce(Stats::default, Stats::merge);
    FamilyResult { explorer: "E3".into(), family, complete: !report::stopped(), note: String::new(), stats, wall_s: t0.elapsed().as_secs_f64() }
}

/// All 5,040 distinct orders of Gold's eight non-rabbit pieces (e m h h d d c c) on a2..h2 with rabbits on a1..h1,
/// and the same 5,040 orders on a1..h1 with the rabbits in front on a2..h2.
/// rabbits on: rank 2; rank 1; files a-d; files e-h; files a, c, e, g; a checkerboard; 2x2 blocks
const RABBIT_MASKS: [u32; 7] = [0x00ff, 0xff00, 0x0f0f, 0xf0f0, 0x5555, 0xaa55, 0xcc33];

pub fn gold_major_orders() -> Vec<String> {
    fn rec(left: &mut [u8; 5], cur: &mut String, out: &mut Vec<String>) {
        if cur.len() == 8 {
            // where the eight rabbits stand among the 16 home squares (bit i = i-th square of the placement order a2..h2,
            // a1..h1): all in front, all behind, and five mixed patterns in which files hold two rabbits / two major
            // pieces - over the 5,040 orders every pair of major types ends up doubled on a file
            for mask in RABBIT_MASKS.iter() {
                let mut it = cur.chars();
                let s: String = (0..16).map(|i| if mask >> i & 1 == 1 { 'r' } else { it.next().unwrap() }).collect();
                out.push(s);
            }
            return;
        }
        let letters = ['c', 'd', 'h', 'm', 'e'];
        for i in 0..5 {
            if left[i] > 0 {
                left[i] -= 1;
                cur.push(letters[i]);
                rec(left, cur, out);
                cur.pop();
                left[i] += 1;
            }
        }
    }
    let mut out = vec![];
    rec(&mut [2, 2, 2, 1, 1], &mut String::new(), &mut out);
    out
}

/// Cross-dependence of the two set-ups: after EVERY one of the 5,040 major-piece orders of Gold, every Silver prefix
/// of length <= depth (the Silver phase must not read Gold's arrangement).
fn offers_match(va: &[Action], left: &[u8; 6]) -> bool {
    let mut offered = [0u8; 6];
    for a in va.iter() {
        match a {
            Action::Place(p) => offered[piece_strength(*p) as usize] += 1,
            _ => return false,
        }
    }
    (0..6).all(|t| offered[t] == (left[t] > 0) as u8)
}

/// Query order: the trie asks every state for its offers before acting on it.  Here states are produced FIRST (a chain
/// of 17 prefix states of one Gold order, none of them asked anything) and asked afterwards, last-to-first and, on a
/// second chain, first-to-last; and two different successors of a never-asked state are asked before their parent.  An
/// implementation that computes offers lazily and shares the unfilled slot between a state and its successors answers
/// with another state's list in exactly these orders.
fn late_queries(ctx: &mut E3Ctx, prefix: &[Action], job: usize) {
    let lefts: Vec<[u8; 6]> = {
        let mut v = vec![COMPLEMENT];
        let mut left = COMPLEMENT;
        for a in prefix.iter() {
            if let Action::Place(p) = a {
                let t = piece_strength(*p) as usize;
                left[t] = left[t].saturating_sub(1);
            }
            v.push(left);
        }
        // after Gold's 16th placement Silver is on move with a full complement
        let n = v.len();
        v[n - 1] = COMPLEMENT;
        v
    };
    let build = || -> Vec<GameState> {
        let mut chain = vec![GameState::initial()];
        for a in prefix.iter() {
            let next = chain.last().unwrap().take_action(a);
            chain.push(next);
        }
        chain
    };
    for (pass, rev) in [("last-to-first", true), ("first-to-last", false)] {
        let chain = build();
        let idxs: Vec<usize> = if rev { (0..chain.len()).rev().collect() } else { (0..chain.len()).collect() };
        for j in idxs {
            ctx.stats.add("e3_late_queries", 1);
            let va = chain[j].valid_actions();
            if !offers_match(&va, &lefts[j]) {
                ctx.path.clear();
                ctx.fail(None, &format!("C09: offered placements are not exactly the piece types with remaining complement (the 17 prefix states of this Gold order were all produced before any was asked; asked {}; this is the state after the first {} placements)", pass, j), actions_text(&va), format!("remaining R C D H M E = {:?}", lefts[j]));
                return;
            }
        }
    }
    // siblings of a never-asked state
    let j = job % prefix.len();
    let chain = build();
    let kinds: Vec<usize> = (0..6).filter(|&t| lefts[j][t] > 0).collect();
    if kinds.len() >= 2 {
        let place = |t: usize| -> Action { ["r", "c", "d", "h", "m", "e"][t].parse::<Action>().unwrap() };
        let (ka, kb) = (kinds[0], kinds[kinds.len() - 1]);
        let (sa, sb) = (chain[j].take_action(&place(ka)), chain[j].take_action(&place(kb)));
        let expect = |k: usize| -> [u8; 6] {
            let mut l = lefts[j];
            l[k] -= 1;
            if j + 1 == prefix.len() {
                l = COMPLEMENT;
            }
            l
        };
        for (st, l, what) in [(&sa, expect(ka), "first sibling"), (&sb, expect(kb), "second sibling"), (&chain[j], lefts[j], "their parent, asked last")] {
            ctx.stats.add("e3_late_queries", 1);
            let va = st.valid_actions();
            if !offers_match(&va, &l) {
                ctx.path.clear();
                ctx.fail(None, &format!("C09: offered placements are not exactly the piece types with remaining complement (two successors of the never-asked state after {} placements: {})", j, what), actions_text(&va), format!("remaining R C D H M E = {:?}", l));
                return;
            }
        }
    }
}

pub fn run_product(prop: &str, checks: u32, depth: usize) -> FamilyResult {
    let t0 = Instant::now();
    let orders = gold_major_orders();
    let family = format!("E3 product: all {} arrangements of Gold (every order of its 8 major pieces x 7 rabbit patterns: front rank, back rank, files a-d, files e-h, alternate files, checkerboard, 2x2 blocks) x (every Silver placement prefix of length <= {} + two complete Silver orders down to the start of play)", orders.len(), depth);
    let fam2 = family.clone();
    let stats = orders
        .par_iter()
        .enumerate()
        .fold(Stats::default, |acc, (i, order)| {
            if report::stopped() {
                return acc;
            }
            let prefix: Vec<Action> = order.chars().map(|c| c.to_string().parse::<Action>().unwrap()).collect();
            let mut ctx = E3Ctx { prop, checks, family: fam2.clone(), prefix: prefix.clone(), path: vec![], query: "", stats: Stats::default(), max_depth: depth, job: i as u64 };
            let r = catch_unwind(AssertUnwindSafe(|| {
                if ctx.on(C09) {
                    late_queries(&mut ctx, &prefix, i);
                }
                let mut gs = GameState::initial();
                for a in prefix.iter() {
                    gs = gs.take_action(a);
                }
                let mut left = COMPLEMENT;
                node(&mut ctx, &gs, false, 0, &mut left, 0);
                // two complete Silver orders ("spines") down to the start of play: every state on them is checked with
                // all its offered placements, the last one with the start-of-play conditions
                for spine in ["rrrrrrrrhdcmecdh", "mhdcrrrrcdherrrr"] {
                    let mut g = gs.clone();
                    let mut left = COMPLEMENT;
                    let save_depth = ctx.max_depth;
                    ctx.max_depth = 0;
                    ctx.path.clear();
                    for (k, ch) in spine.chars().enumerate() {
                        node(&mut ctx, &g, false, k, &mut left, 0);
                        let a: Action = ch.to_string().parse().unwrap();
                        if let Action::Place(p) = a {
                            let t = piece_strength(p) as usize;
                            if left[t] > 0 {
                                left[t] -= 1;
                            }
                        }
                        if k < 15 {
                            g = g.take_action(&a);
                            ctx.path.push(a);
                        }
                    }
                    ctx.path.clear();
                    ctx.max_depth = save_depth;
                }
            }));
            if r.is_err() {
                let q = E3_QUERY.with(|q| q.get());
                ctx.fail(None, &format!("panic in the engine during `{}` in setup", q), last_panic(), "returns normally".into());
            }
            ctx.stats.roots = 1;
            if i == 0 {
                ctx.stats.sample(0, format!("Gold order {} then every Silver prefix of length <= {}", order, depth));
            }
            acc.merge(ctx.stats)
        })
        .reduce(Stats::default, Stats::merge);
    FamilyResult { explorer: "E3".into(), family, complete: !report::stopped(), note: String::new(), stats, wall_s: t0.elapsed().as_secs_f64() }
}
