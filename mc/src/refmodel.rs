//! Reference model of the Arimaa rules, written from the rule book, not from the engine.
//! Mailbox board, no bitboards, no hashes.  Index i: file = i % 8 (0 = a), rank = 8 - i / 8.
//! Directions: 0 = north (rank + 1, i - 8), 1 = east (file + 1, i + 1), 2 = south, 3 = west.

pub const EMPTY: u8 = 0;
/// cell = (strength + 1) | gold << 3 ; strength: R=0 C=1 D=2 H=3 M=4 E=5
pub type Cell = u8;
pub type Board = [Cell; 64];

#[inline]
pub fn cell(gold: bool, st: u8) -> Cell {
    (st + 1) | ((gold as u8) << 3)
}
#[inline]
pub fn is_gold(c: Cell) -> bool {
    c & 8 != 0
}
#[inline]
pub fn strength(c: Cell) -> u8 {
    (c & 7) - 1
}
pub const RABBIT: u8 = 0;

pub const TRAPS: [usize; 4] = [18, 21, 42, 45]; // c6 f6 c3 f3

#[inline]
pub fn is_trap(i: usize) -> bool {
    i == 18 || i == 21 || i == 42 || i == 45
}

#[inline]
pub fn nb(i: usize, d: usize) -> Option<usize> {
    let f = i % 8;
    let r = i / 8;
    match d {
        0 => {
            if r > 0 {
                Some(i - 8)
            } else {
                None
            }
        }
        1 => {
            if f < 7 {
                Some(i + 1)
            } else {
                None
            }
        }
        2 => {
            if r < 7 {
                Some(i + 8)
            } else {
                None
            }
        }
        _ => {
            if f > 0 {
                Some(i - 1)
            } else {
                None
            }
        }
    }
}

pub fn has_friend(b: &Board, i: usize) -> bool {
    let c = b[i];
    (0..4).any(|d| nb(i, d).map_or(false, |j| b[j] != EMPTY && is_gold(b[j]) == is_gold(c)))
}

pub fn has_stronger_enemy(b: &Board, i: usize) -> bool {
    let c = b[i];
    (0..4).any(|d| {
        nb(i, d).map_or(false, |j| {
            b[j] != EMPTY && is_gold(b[j]) != is_gold(c) && strength(b[j]) > strength(c)
        })
    })
}

pub fn frozen(b: &Board, i: usize) -> bool {
    has_stronger_enemy(b, i) && !has_friend(b, i)
}

/// Moves the piece on `from` one square in direction `d` (target must be empty and on board), then removes every
/// piece standing on a trap without an adjacent friend.  Returns the new board and the list of removed pieces.
pub fn apply_step(b: &Board, from: usize, d: usize) -> (Board, Vec<(usize, Cell)>) {
    let to = nb(from, d).expect("step off board");
    assert!(b[from] != EMPTY && b[to] == EMPTY);
    let mut n = *b;
    n[to] = n[from];
    n[from] = EMPTY;
    let mut removed = Vec::new();
    // simultaneous evaluation on the board after the move
    let snapshot = n;
    for &t in TRAPS.iter() {
        if snapshot[t] != EMPTY && !has_friend(&snapshot, t) {
            removed.push((t, snapshot[t]));
            n[t] = EMPTY;
        }
    }
    (n, removed)
}

/// One way of reading the steps made so far in this turn.
#[derive(Clone, Copy, PartialEq, Eq, PartialOrd, Ord, Hash, Debug)]
pub enum Parse {
    /// nothing owed; the last step was an own step by a non-rabbit from `sq` with `strength` (a pull may follow)
    Free(Option<(u8, u8)>),
    /// an enemy piece of the given strength was displaced from `sq`; an own stronger piece must step into it
    Pending(u8, u8),
}

/// Set of parses, kept sorted and de-duplicated.
#[derive(Clone, PartialEq, Eq, Hash, Debug)]
pub struct PSet(pub Vec<Parse>);

impl PSet {
    pub fn start() -> Self {
        PSet(vec![Parse::Free(None)])
    }
    fn norm(mut v: Vec<Parse>) -> Self {
        v.sort();
        v.dedup();
        PSet(v)
    }
    pub fn has_free(&self) -> bool {
        self.0.iter().any(|p| matches!(p, Parse::Free(_)))
    }
    pub fn code(&self) -> u64 {
        // injective for |set| <= 4 (always the case: at most Free(None), Free(Some), Pending)
        let mut c: u64 = 0;
        for p in self.0.iter() {
            let x: u64 = match *p {
                Parse::Free(None) => 1,
                Parse::Free(Some((s, t))) => 2 | ((s as u64) << 2) | ((t as u64) << 8),
                Parse::Pending(s, t) => 3 | ((s as u64) << 2) | ((t as u64) << 8),
            };
            c = (c << 12) | x;
        }
        c | ((self.0.len() as u64) << 60)
    }
}

/// Is there an own piece adjacent to `v`, strictly stronger than `y`, and unfrozen on board `b`?
pub fn pusher_available(b: &Board, gold: bool, v: usize, y: u8) -> bool {
    (0..4).any(|d| {
        nb(v, d).map_or(false, |p| {
            b[p] != EMPTY && is_gold(b[p]) == gold && strength(b[p]) > y && !frozen(b, p)
        })
    })
}

#[derive(Clone, Debug)]
pub struct LegalStep {
    pub from: usize,
    pub dir: usize,
    pub board: Board,
    pub removed: Vec<(usize, Cell)>,
    pub pset: PSet,
}

/// All legal steps for `gold` to move after `steps` (0..=3) steps of this turn under parse set `p`.
pub fn legal_steps(b: &Board, gold: bool, steps: usize, p: &PSet) -> Vec<LegalStep> {
    let mut out = Vec::new();
    if steps >= 4 {
        return out;
    }
    for from in 0..64 {
        let c = b[from];
        if c == EMPTY {
            continue;
        }
        for d in 0..4 {
            let to = match nb(from, d) {
                Some(t) if b[t] == EMPTY => t,
                _ => continue,
            };
            let st = strength(c);
            let mut results: Vec<Parse> = Vec::new();
            if is_gold(c) == gold {
                // own step
                if frozen(b, from) {
                    continue;
                }
                if st == RABBIT {
                    let backward = if gold { 2 } else { 0 };
                    if d == backward {
                        continue;
                    }
                }
                for parse in p.0.iter() {
                    match *parse {
                        Parse::Free(_) => {
                            if st == RABBIT {
                                results.push(Parse::Free(None));
                            } else {
                                results.push(Parse::Free(Some((from as u8, st))));
                            }
                        }
                        Parse::Pending(v, y) => {
                            if to == v as usize && st > y {
                                results.push(Parse::Free(None));
                            }
                        }
                    }
                }
            } else {
                // enemy step: completes a pull, or starts a push
                for parse in p.0.iter() {
                    if let Parse::Free(cand) = *parse {
                        if let Some((a, x)) = cand {
                            if to == a as usize && st < x {
                                results.push(Parse::Free(None));
                            }
                        }
                        // start of a push: this is step number steps+1, the completion is steps+2 <= 4
                        if steps <= 2 && pusher_available(b, gold, from, st) {
                            results.push(Parse::Pending(from as u8, st));
                        }
                    }
                }
            }
            if results.is_empty() {
                continue;
            }
            let (nbd, removed) = apply_step(b, from, d);
            // a pending push must be completable on the new board
            results.retain(|r| match *r {
                Parse::Pending(v, y) => pusher_available(&nbd, gold, v as usize, y),
                _ => true,
            });
            if results.is_empty() {
                continue;
            }
            out.push(LegalStep { from, dir: d, board: nbd, removed, pset: PSet::norm(results) });
        }
    }
    out
}

pub fn pass_legal(steps: usize, p: &PSet) -> bool {
    steps >= 1 && p.has_free()
}

#[derive(Clone, Copy, PartialEq, Eq, Debug)]
pub enum Winner {
    Gold,
    Silver,
}

pub fn rabbit_on_goal(b: &Board, gold: bool) -> bool {
    // gold's goal is rank 8 (row 0), silver's goal is rank 1 (row 7)
    let row = if gold { 0 } else { 7 };
    (0..8).any(|f| b[row * 8 + f] == cell(gold, RABBIT))
}

pub fn has_rabbit(b: &Board, gold: bool) -> bool {
    b.iter().any(|&c| c == cell(gold, RABBIT))
}

/// Official order of win conditions at the start of the turn of `gold_to_move`.
pub fn result_at_turn_start(b: &Board, gold_to_move: bool) -> Option<Winner> {
    let mover = gold_to_move;
    let prev = !gold_to_move;
    let win = |g: bool| if g { Winner::Gold } else { Winner::Silver };
    if rabbit_on_goal(b, prev) {
        return Some(win(prev));
    }
    if rabbit_on_goal(b, mover) {
        return Some(win(mover));
    }
    if !has_rabbit(b, mover) {
        return Some(win(prev));
    }
    if !has_rabbit(b, prev) {
        return Some(win(mover));
    }
    if legal_steps(b, mover, 0, &PSet::start()).is_empty() {
        return Some(win(prev));
    }
    None
}

pub const COMPLEMENT: [u8; 6] = [8, 2, 2, 2, 1, 1]; // R C D H M E

/// Legal position: per-side counts within the complement, nothing unsupported on a trap.
pub fn position_legal(b: &Board) -> bool {
    let mut cnt = [[0u8; 6]; 2];
    for &c in b.iter() {
        if c != EMPTY {
            cnt[is_gold(c) as usize][strength(c) as usize] += 1;
        }
    }
    for s in 0..2 {
        for t in 0..6 {
            if cnt[s][t] > COMPLEMENT[t] {
                return false;
            }
        }
    }
    for &t in TRAPS.iter() {
        if b[t] != EMPTY && !has_friend(b, t) {
            return false;
        }
    }
    true
}

pub fn cell_letter(c: Cell) -> char {
    if c == EMPTY {
        return ' ';
    }
    let l = ['r', 'c', 'd', 'h', 'm', 'e'][strength(c) as usize];
    if is_gold(c) {
        l.to_ascii_uppercase()
    } else {
        l
    }
}

pub fn sq_name(i: usize) -> String {
    format!("{}{}", (b'a' + (i % 8) as u8) as char, 8 - i / 8)
}

pub const DIR_LETTER: [char; 4] = ['n', 'e', 's', 'w'];

/// Arimaa-style diagram of a mailbox board (same layout the engine prints), with header.
pub fn diagram(b: &Board, gold_to_move: bool, move_number: usize) -> String {
    let mut s = format!("{}{}\n +-----------------+\n", move_number, if gold_to_move { "g" } else { "s" });
    for r in 0..8 {
        s.push_str(&format!("{}|", 8 - r));
        for f in 0..8 {
            let i = r * 8 + f;
            let ch = if b[i] != EMPTY {
                cell_letter(b[i])
            } else if is_trap(i) {
                'x'
            } else {
                ' '
            };
            s.push(' ');
            s.push(ch);
        }
        s.push_str(" |\n");
    }
    s.push_str(" +-----------------+\n   a b c d e f g h\n");
    s
}
