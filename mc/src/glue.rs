//! Binding between the engine's public API and the reference model's vocabulary.
use crate::refmodel as rm;
use arimaa_engine_step::*;

pub type Raw = [u64; 8];

pub const PIECES: [Piece; 6] =
    [Piece::Rabbit, Piece::Cat, Piece::Dog, Piece::Horse, Piece::Camel, Piece::Elephant];

pub fn piece_strength(p: Piece) -> u8 {
    match p {
        Piece::Rabbit => 0,
        Piece::Cat => 1,
        Piece::Dog => 2,
        Piece::Horse => 3,
        Piece::Camel => 4,
        Piece::Elephant => 5,
    }
}

pub fn dir_index(d: Direction) -> usize {
    match d {
        Direction::Up => 0,
        Direction::Right => 1,
        Direction::Down => 2,
        Direction::Left => 3,
    }
}

pub const DIRS: [Direction; 4] = [Direction::Up, Direction::Right, Direction::Down, Direction::Left];

/// p1_pieces, all_pieces, elephants, camels, horses, dogs, cats, rabbits
pub fn raw(pb: &PieceBoardState) -> Raw {
    [pb.p1_pieces, pb.all_pieces, pb.elephants, pb.camels, pb.horses, pb.dogs, pb.cats, pb.rabbits]
}

/// Raw fields a consistent engine board must have for a given mailbox board.
pub fn raw_from_board(b: &rm::Board) -> Raw {
    let mut r = [0u64; 8];
    for i in 0..64 {
        let c = b[i];
        if c == rm::EMPTY {
            continue;
        }
        let bit = 1u64 << i;
        if rm::is_gold(c) {
            r[0] |= bit;
        }
        r[1] |= bit;
        // strength 5=E -> r[2], 4=M -> r[3], 3=H -> r[4], 2=D -> r[5], 1=C -> r[6], 0=R -> r[7]
        r[7 - rm::strength(c) as usize] |= bit;
    }
    r
}

/// Mailbox board as seen through the engine's public accessor `bits_for_piece`.
/// Returns Err if two kinds claim the same square.
pub fn board_from_engine(pb: &PieceBoardState) -> Result<rm::Board, String> {
    let mut b = [rm::EMPTY; 64];
    for &gold in [true, false].iter() {
        for &p in PIECES.iter() {
            let mut bits = pb.bits_for_piece(p, gold);
            while bits != 0 {
                let i = bits.trailing_zeros() as usize;
                bits &= bits - 1;
                if b[i] != rm::EMPTY {
                    return Err(format!("two kinds on square {}", rm::sq_name(i)));
                }
                b[i] = rm::cell(gold, piece_strength(p));
            }
        }
    }
    Ok(b)
}

pub fn piece_board_from_board(b: &rm::Board) -> PieceBoard {
    let r = raw_from_board(b);
    PieceBoard::new(r[0], r[2], r[3], r[4], r[5], r[6], r[7])
}

/// A start-of-turn play-phase state built the way `from_str` builds one, without the regex.
pub fn state_from_board(b: &rm::Board, gold_to_move: bool, move_number: usize) -> GameState {
    let pb = piece_board_from_board(b);
    let hash = Zobrist::from_piece_board(pb.piece_board(), gold_to_move, 0);
    let hist = List::new().append(hash);
    GameState::new(gold_to_move, move_number, Phase::PlayPhase(PlayPhase::initial(hash, hist)), pb, hash)
}

pub fn action_of(from: usize, dir: usize) -> Action {
    Action::Move(Square::from_index(from as u8), DIRS[dir])
}

pub fn pps_code(p: PushPullState) -> u32 {
    match p {
        PushPullState::None => 0,
        PushPullState::PossiblePull(s, pc) => 1 | ((s.index() as u32) << 2) | ((piece_strength(pc) as u32) << 8),
        PushPullState::MustCompletePush(s, pc) => {
            2 | ((s.index() as u32) << 2) | ((piece_strength(pc) as u32) << 8)
        }
    }
}

pub fn actions_text(a: &[Action]) -> String {
    a.iter().map(|x| x.to_string()).collect::<Vec<_>>().join(" ")
}
