//! C11 — lock-step exploration of a game and its images under file mirroring (m), colour swap + rank flip (s), and m∘s.
//! No reference model is involved: the engine is compared with itself.
use crate::e2::Config;
use crate::explore::*;
use crate::families::{board_from_diagram, mirror_board, swap_board, Family};
use crate::glue::*;
use crate::refmodel as rm;
use crate::report::{self, FamilyResult, Stats, Violation};
use arimaa_engine_step::*;
use rayon::prelude::*;
use std::collections::VecDeque;
use std::panic::{catch_unwind, AssertUnwindSafe};
use std::sync::atomic::{AtomicU64, Ordering};
use std::time::Instant;

#[derive(Clone, Copy, PartialEq, Eq, Debug)]
pub struct Tr {
    pub mirror: bool,
    pub swap: bool,
}

pub const TRS: [Tr; 3] = [Tr { mirror: true, swap: false }, Tr { mirror: false, swap: true }, Tr { mirror: true, swap: true }];

impl Tr {
    pub fn name(&self) -> &'static str {
        match (self.mirror, self.swap) {
            (true, false) => "file mirror",
            (false, true) => "colour swap + rank flip",
            (true, true) => "mirror + swap",
            _ => "identity",
        }
    }
    pub fn sq(&self, i: usize) -> usize {
        let (mut f, mut r) = (i % 8, i / 8);
        if self.mirror {
            f = 7 - f;
        }
        if self.swap {
            r = 7 - r;
        }
        r * 8 + f
    }
    pub fn dir(&self, d: Direction) -> Direction {
        match d {
            Direction::Left if self.mirror => Direction::Right,
            Direction::Right if self.mirror => Direction::Left,
            Direction::Up if self.swap => Direction::Down,
            Direction::Down if self.swap => Direction::Up,
            x => x,
        }
    }
    pub fn action(&self, a: &Action) -> Action {
        match a {
            Action::Move(s, d) => Action::Move(Square::from_index(self.sq(s.index()) as u8), self.dir(*d)),
            x => *x,
        }
    }
    pub fn board(&self, b: &rm::Board) -> rm::Board {
        let mut n = *b;
        if self.mirror {
            n = mirror_board(&n);
        }
        if self.swap {
            n = swap_board(&n);
        }
        n
    }
    pub fn side(&self, gold: bool) -> bool {
        gold ^ self.swap
    }
    pub fn terminal(&self, t: Option<Terminal>) -> Option<Terminal> {
        if !self.swap {
            return t;
        }
        t.map(|t| if t == Terminal::GoldWin { Terminal::SilverWin } else { Terminal::GoldWin })
    }
    pub fn preview(&self, p: Option<(Square, Piece, bool)>) -> Option<(Square, Piece, bool)> {
        p.map(|(s, pc, g)| (Square::from_index(self.sq(s.index()) as u8), pc, g ^ self.swap))
    }
}

struct LNode {
    s: GameState,
    imgs: [GameState; 3],
    steps: usize,
    turn_start: Raw,
    hist: Vec<(Raw, bool)>,
    path: Vec<Action>,
}

struct LCtx<'a> {
    prop: &'a str,
    explorer: &'static str,
    family: String,
    idx: u64,
    root_board: rm::Board,
    root_gold: bool,
    config: serde_json::Value,
    stats: Stats,
    query: &'static str,
    path: Vec<Action>,
}

impl<'a> LCtx<'a> {
    fn fail(&mut self, tr: Tr, extra: Option<&Action>, what: &str, observed: String, expected: String) {
        let mut actions: Vec<String> = self.path.iter().map(|a| a.to_string()).collect();
        if let Some(a) = extra {
            actions.push(a.to_string());
        }
        let mut cfg = self.config.clone();
        if cfg.is_null() {
            cfg = serde_json::json!({});
        }
        cfg["transform"] = serde_json::json!(tr.name());
        report::report(Violation {
            property: self.prop.to_string(),
            explorer: self.explorer.into(),
            family: self.family.clone(),
            root_idx: self.idx,
            root: rm::diagram(&self.root_board, self.root_gold, 2),
            config: cfg,
            actions,
            what: format!("C11 ({}): {}", tr.name(), what),
            observed,
            expected,
        });
    }
}

fn sorted(mut v: Vec<Action>) -> Vec<Action> {
    v.sort();
    v
}

/// Compares the node with its three images; returns the offered actions of the primary.
fn compare(ctx: &mut LCtx, n: &LNode) -> Vec<Action> {
    ctx.query = "valid_actions";
    let va = n.s.valid_actions();
    ctx.query = "valid_actions_no_rep";
    let nr = n.s.valid_actions_no_rep();
    ctx.query = "is_terminal";
    let term = n.s.is_terminal();
    ctx.query = "";
    if va.len() < nr.len() {
        ctx.stats.add("c11_states_with_withheld_action", 1);
    }
    for (k, tr) in TRS.iter().enumerate() {
        let img = &n.imgs[k];
        ctx.query = "valid_actions (image)";
        let iva = sorted(img.valid_actions());
        let inr = sorted(img.valid_actions_no_rep());
        let it = img.is_terminal();
        ctx.query = "";
        let tva = sorted(va.iter().map(|a| tr.action(a)).collect());
        let tnr = sorted(nr.iter().map(|a| tr.action(a)).collect());
        if tva != iva {
            ctx.fail(*tr, None, "offered actions of the image differ from the transformed offered actions", actions_text(&iva), actions_text(&tva));
        }
        if tnr != inr {
            ctx.fail(*tr, None, "rule-only actions of the image differ from the transformed rule-only actions", actions_text(&inr), actions_text(&tnr));
        }
        if tr.terminal(term.clone()) != it {
            ctx.fail(*tr, None, "result of the image differs from the transformed result", format!("{:?}", it), format!("{:?}", tr.terminal(term.clone())));
        }
        ctx.stats.add("c11_state_pairs_compared", 1);
    }
    va
}

fn step(ctx: &mut LCtx, n: &LNode, a: &Action) -> LNode {
    ctx.query = "trapped_animal_for_action";
    let pv = n.s.trapped_animal_for_action(a);
    ctx.query = "take_action";
    let t = n.s.take_action(a);
    ctx.stats.transitions += 1;
    let mut imgs: Vec<GameState> = Vec::with_capacity(3);
    for (k, tr) in TRS.iter().enumerate() {
        let ta = tr.action(a);
        ctx.query = "trapped_animal_for_action (image)";
        let ipv = n.imgs[k].trapped_animal_for_action(&ta);
        if tr.preview(pv) != ipv {
            ctx.fail(*tr, Some(a), "capture of the image differs from the transformed capture", format!("{:?}", ipv), format!("{:?}", tr.preview(pv)));
        }
        ctx.query = "take_action (image)";
        let it = n.imgs[k].take_action(&ta);
        // boards must stay images of each other
        if let (Ok(b), Ok(ib)) = (board_from_engine(t.piece_board()), board_from_engine(it.piece_board())) {
            if tr.board(&b) != ib || tr.side(t.is_p1_turn_to_move()) != it.is_p1_turn_to_move() {
                ctx.fail(*tr, Some(a), "board / side after the transformed action is not the image of the board after the action", rm::diagram(&ib, it.is_p1_turn_to_move(), 0), rm::diagram(&tr.board(&b), tr.side(t.is_p1_turn_to_move()), 0));
            }
        }
        imgs.push(it);
    }
    ctx.query = "";
    if pv.is_some() {
        ctx.stats.add("c11_capturing_transitions", 1);
    }
    let ends = matches!(a, Action::Pass) || n.steps == 3;
    let tr_raw = raw(t.piece_board());
    let mut hist = n.hist.clone();
    let (steps, turn_start) = if ends {
        hist.push((tr_raw, t.is_p1_turn_to_move()));
        (0, tr_raw)
    } else {
        (n.steps + 1, n.turn_start)
    };
    let mut path = n.path.clone();
    path.push(*a);
    let i2 = imgs.pop().unwrap();
    let i1 = imgs.pop().unwrap();
    let i0 = imgs.pop().unwrap();
    LNode { s: t, imgs: [i0, i1, i2], steps, turn_start, hist, path }
}

fn root_lnode(board: &rm::Board, gold: bool) -> LNode {
    let s = state_from_board(board, gold, 2);
    let imgs = [
        state_from_board(&TRS[0].board(board), TRS[0].side(gold), 2),
        state_from_board(&TRS[1].board(board), TRS[1].side(gold), 2),
        state_from_board(&TRS[2].board(board), TRS[2].side(gold), 2),
    ];
    let r = raw(s.piece_board());
    LNode { s, imgs, steps: 0, turn_start: r, hist: vec![(r, gold)], path: vec![] }
}

type LKey = (Raw, u8, u32, bool);
fn lkey(n: &LNode) -> LKey {
    let pp = n.s.as_play_phase();
    (raw(n.s.piece_board()), n.steps as u8, pp.map_or(0, |p| pps_code(p.push_pull_state())), pp.map_or(false, |p| p.piece_trapped_this_turn()))
}

/// Steps of the turn after which states are still compared with their images but no longer expanded (4 = the whole
/// turn).  Set only by the sequential "all seeds, shallow" sweep of the quick tier.
pub static STEP_LIMIT: std::sync::atomic::AtomicUsize = std::sync::atomic::AtomicUsize::new(4);

fn dfs_turn(ctx: &mut LCtx, n: &LNode, seen: &mut FxSet<LKey>) {
    if report::stopped() {
        return;
    }
    if !seen.insert(lkey(n)) {
        return;
    }
    ctx.stats.states += 1;
    ctx.path = n.path.clone();
    let va = compare(ctx, n);
    if n.steps >= STEP_LIMIT.load(std::sync::atomic::Ordering::Relaxed) {
        ctx.stats.add("c11_states_compared_but_not_expanded_step_limit", 1);
        return;
    }
    for a in va.iter() {
        ctx.path = n.path.clone();
        let t = step(ctx, n, a);
        let ends = matches!(a, Action::Pass) || n.steps == 3;
        if ends {
            // compare the new turn-start states too (results, offered lists), do not expand
            ctx.path = t.path.clone();
            let _ = compare(ctx, &t);
        } else {
            dfs_turn(ctx, &t, seen);
        }
    }
}

/// E1-style: every root of a family, one full turn, in lock-step with its three images.
/// `orbit_reduce`: the family is closed under both symmetries (every image of a root is itself a root of the family), so
/// only the canonical representative of each orbit {x, m(x), s(x), ms(x)} is used as primary (a lock-step run from x is the
/// same four games as a lock-step run from any of its images; the comparison is symmetric).
pub fn run_family(prop: &str, fam: &Family, deadline: Option<Instant>, orbit_reduce: bool) -> FamilyResult {
    let t0 = Instant::now();
    let skipped = AtomicU64::new(0);
    let non_canonical = AtomicU64::new(0);
    let fam_name = format!("{} — in lock-step with mirror, swap and mirror+swap images{}", fam.name, if orbit_reduce { " (one primary per symmetry orbit: the family is closed under the symmetries)" } else { "" });
    let stats = (0..fam.n)
        .into_par_iter()
        .fold(Stats::default, |acc, idx| {
            if report::stopped() {
                return acc;
            }
            if let Some(d) = deadline {
                if Instant::now() > d {
                    skipped.fetch_add(1, Ordering::Relaxed);
                    return acc;
                }
            }
            let (board, gold) = match (fam.decode)(idx) {
                Some(x) => x,
                None => return acc,
            };
            if orbit_reduce {
                let me = (board, gold);
                if TRS.iter().any(|t| (t.board(&board), t.side(gold)) < me) {
                    non_canonical.fetch_add(1, Ordering::Relaxed);
                    return acc;
                }
            }
            let mut ctx = LCtx { prop, explorer: "E1x4", family: fam_name.clone(), idx, root_board: board, root_gold: gold, config: serde_json::Value::Null, stats: Stats::default(), query: "", path: vec![] };
            let r = catch_unwind(AssertUnwindSafe(|| {
                let n = root_lnode(&board, gold);
                let mut seen = FxSet::default();
                dfs_turn(&mut ctx, &n, &mut seen);
            }));
            if r.is_err() {
                let q = ctx.query;
                ctx.fail(Tr { mirror: false, swap: false }, None, &format!("panic in the engine during `{}`", q), last_panic(), "returns normally".into());
            }
            ctx.stats.roots = 1;
            if idx < 3000 && ctx.stats.samples.is_empty() {
                ctx.stats.sample(idx, format!("root #{} and its 3 images, one full turn in lock-step ({} states):\n{}", idx, ctx.stats.states, rm::diagram(&board, gold, 2)));
            }
            acc.merge(ctx.stats)
        })
        .reduce(Stats::default, Stats::merge);
    let sk = skipped.load(Ordering::Relaxed);
    let mut stats = stats;
    if orbit_reduce {
        stats.add("c11_roots_covered_as_image_of_the_orbit_representative", non_canonical.load(Ordering::Relaxed));
    }
    FamilyResult { explorer: "E1x4".into(), family: fam_name, complete: sk == 0 && !report::stopped(), note: if sk > 0 { format!("wall cap hit: {} root indices not explored (family NOT complete)", sk) } else { String::new() }, stats, wall_s: t0.elapsed().as_secs_f64() }
}

/// E2-style: a confined game to fix-point (or turn bound) in lock-step with its three images.
pub fn run_config(prop: &str, cfg: &Config, idx: u64) -> FamilyResult {
    let t0 = Instant::now();
    let (mut board, _, _) = board_from_diagram(&cfg.diagram).unwrap();
    if let Some(o) = &cfg.setup {
        board = crate::families::board_of_setup(o);
    }
    let family = format!("E2x4 {} — in lock-step with its 3 images", cfg.name);
    let mut ctx = LCtx { prop, explorer: "E2x4", family: family.clone(), idx, root_board: board, root_gold: cfg.gold_to_move, config: crate::e2::config_json(cfg), stats: Stats::default(), query: "", path: vec![] };
    let mut complete = true;
    let mut note = String::new();
    let r = catch_unwind(AssertUnwindSafe(|| {
        type K = (LKey, bool, Raw, Vec<(Raw, bool, u16)>, Vec<u64>);
        let key = |n: &LNode| -> K {
            let mut occ: Vec<(Raw, bool, u16)> = Vec::new();
            for (r, s) in n.hist.iter() {
                match occ.iter_mut().find(|x| x.0 == *r && x.1 == *s) {
                    Some(x) => x.2 += 1,
                    None => occ.push((*r, *s, 1)),
                }
            }
            occ.sort();
            let mut eh: Vec<u64> = n.s.as_play_phase().map_or(vec![], |p| p.hash_history().iter().map(|z| z.board_state_hash()).collect());
            eh.sort();
            (lkey(n), n.s.is_p1_turn_to_move(), n.turn_start, occ, eh)
        };
        let n0 = root_lnode(&board, cfg.gold_to_move);
        let mut seen: FxSet<K> = FxSet::default();
        seen.insert(key(&n0));
        ctx.stats.states += 1;
        let mut queue: VecDeque<LNode> = VecDeque::new();
        queue.push_back(n0);
        while let Some(n) = queue.pop_front() {
            if report::stopped() {
                break;
            }
            ctx.path = n.path.clone();
            let va = compare(&mut ctx, &n);
            let b = board_from_engine(n.s.piece_board()).unwrap_or([rm::EMPTY; 64]);
            for a in va.iter() {
                ctx.path = n.path.clone();
                let t = step(&mut ctx, &n, a);
                let follow = match a {
                    Action::Pass => true,
                    Action::Move(from, d) => match rm::nb(from.index(), dir_index(*d)) {
                        Some(to) => {
                            let c = b[from.index()];
                            c != rm::EMPTY && cfg.allowed(rm::is_gold(c), to, n.hist.len() == 1)
                        }
                        None => false,
                    },
                    _ => false,
                };
                if !follow {
                    continue;
                }
                if let Some(mt) = cfg.max_turns {
                    if t.hist.len() > mt + 1 {
                        continue;
                    }
                }
                if seen.insert(key(&t)) {
                    ctx.stats.states += 1;
                    if seen.len() > cfg.max_states {
                        complete = false;
                        note = format!("state cap {} hit: NOT explored to fix-point", cfg.max_states);
                        return;
                    }
                    queue.push_back(t);
                }
            }
        }
    }));
    if r.is_err() {
        let q = ctx.query;
        ctx.fail(Tr { mirror: false, swap: false }, None, &format!("panic in the engine during `{}`", q), last_panic(), "returns normally".into());
    }
    if let Some(mt) = cfg.max_turns {
        if note.is_empty() {
            note = format!("explored completely to the turn bound {} (not to fix-point)", mt);
        }
    }
    ctx.stats.roots = 1;
    ctx.stats.sample(idx, format!("confined game '{}' in lock-step with its 3 images ({} states)", cfg.name, ctx.stats.states));
    let stats = std::mem::take(&mut ctx.stats);
    FamilyResult { explorer: "E2x4".into(), family, complete: complete && !report::stopped(), note, stats, wall_s: t0.elapsed().as_secs_f64() }
}

/// Scripted games (paths.rs) in lock-step with their three images: `compare` on every state of the path.
pub fn run_scripts(prop: &str, name: &str, scripts: &[crate::paths::Script]) -> FamilyResult {
    let t0 = Instant::now();
    let family = format!("{} — in lock-step with mirror, swap and mirror+swap images", name);
    let stats = scripts
        .par_iter()
        .enumerate()
        .map(|(i, sc)| {
            let mut ctx = LCtx { prop, explorer: "E10x4", family: family.clone(), idx: i as u64, root_board: sc.board, root_gold: sc.gold, config: sc.config.clone(), stats: Stats::default(), query: "", path: vec![] };
            let r = catch_unwind(AssertUnwindSafe(|| {
                let mut n = root_lnode(&sc.board, sc.gold);
                'game: for turn in sc.turns.iter() {
                    for want in turn.iter() {
                        ctx.stats.states += 1;
                        ctx.path = n.path.clone();
                        let va = compare(&mut ctx, &n);
                        if !va.contains(want) {
                            ctx.stats.add("e10_scripts_ended_at_a_withheld_action", 1);
                            break 'game;
                        }
                        n = step(&mut ctx, &n, want);
                    }
                }
            }));
            if r.is_err() {
                let q = ctx.query;
                ctx.fail(Tr { mirror: false, swap: false }, None, &format!("panic in the engine during `{}`", q), last_panic(), "returns normally".into());
            }
            ctx.stats.roots = 1;
            std::mem::take(&mut ctx.stats)
        })
        .reduce(Stats::default, Stats::merge);
    FamilyResult { explorer: "E10x4".into(), family, complete: !report::stopped(), note: String::new(), stats, wall_s: t0.elapsed().as_secs_f64() }
}
