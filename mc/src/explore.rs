//! State/edge oracles evaluated on the real engine, shared by the turn explorer (E1) and the game explorer (E2).
use crate::glue::*;
use crate::refmodel as rm;
use crate::report::{self, Stats, Violation};
use arimaa_engine_step::*;
use serde_json::Value;
use std::cell::RefCell;
use std::collections::{HashMap, HashSet};
use std::hash::{BuildHasherDefault, Hash, Hasher};

pub const C01: u32 = 1 << 1;
pub const C02: u32 = 1 << 2;
pub const C03: u32 = 1 << 3;
pub const C04: u32 = 1 << 4;
pub const C05: u32 = 1 << 5;
pub const C06: u32 = 1 << 6;
pub const C07: u32 = 1 << 7;
pub const C08: u32 = 1 << 8;
pub const C10: u32 = 1 << 10;
pub const C12: u32 = 1 << 12;
pub const C13: u32 = 1 << 13;
pub const C14: u32 = 1 << 14;
pub const C15: u32 = 1 << 15; // round trip print/parse on visited states
pub const C18: u32 = 1 << 18; // sequential half: a state is never modified by being expanded
pub const C19: u32 = 1 << 19;
/// C08(d) / C15 parse link on turn-start states (expensive: regex compile per parse)
pub const PARSE_LINK: u32 = 1 << 24;
/// the same link, evaluated on the root of each exploration only
pub const PARSE_LINK_ROOT: u32 = 1 << 25;
/// C15 on bulk families: every state is printed and the text is read back by the harness's diagram reader (cells, side,
/// move number must describe the state); the full parse round trip runs once per distinct TEXT per worker (parsing is a
/// function of the text; the un-deduplicated round trip runs on the smaller families)
pub const C15_TEXT: u32 = 1 << 26;

pub fn check_bit(id: &str) -> u32 {
    match id {
        "C01" => C01,
        "C02" => C02,
        "C03" => C03,
        "C04" => C04,
        "C05" => C05,
        "C06" => C06,
        "C07" => C07,
        "C08" => C08,
        "C10" => C10,
        "C12" => C12,
        "C13" => C13,
        "C14" => C14,
        "C15" => C15,
        "C18" => C18,
        "C19" => C19,
        _ => 0,
    }
}

// ---------- a small fast hasher for the seen sets (keys are already well mixed integers) ----------
#[derive(Default)]
pub struct Fx(u64);
impl Hasher for Fx {
    fn finish(&self) -> u64 {
        self.0
    }
    fn write(&mut self, bytes: &[u8]) {
        for &b in bytes {
            self.write_u8(b);
        }
    }
    fn write_u8(&mut self, i: u8) {
        self.write_u64(i as u64)
    }
    fn write_u32(&mut self, i: u32) {
        self.write_u64(i as u64)
    }
    fn write_usize(&mut self, i: usize) {
        self.write_u64(i as u64)
    }
    fn write_u64(&mut self, i: u64) {
        self.0 = (self.0.rotate_left(5) ^ i).wrapping_mul(0x517cc1b727220a95);
    }
}
pub type FxBuild = BuildHasherDefault<Fx>;
pub type FxSet<K> = HashSet<K, FxBuild>;
pub type FxMap<K, V> = HashMap<K, V, FxBuild>;

/// Fixed-key SipHash of a key, for the order-independent digest.
pub fn sip<T: Hash>(t: &T) -> u64 {
    #[allow(deprecated)]
    let mut h = std::hash::SipHasher::new_with_keys(0x0123456789abcdef, 0xfedcba9876543210);
    t.hash(&mut h);
    h.finish()
}

// ---------- panic capture ----------
thread_local! {
    pub static LAST_PANIC: RefCell<String> = RefCell::new(String::new());
}

pub fn install_panic_hook() {
    std::panic::set_hook(Box::new(|info| {
        let msg = if let Some(s) = info.payload().downcast_ref::<&str>() {
            s.to_string()
        } else if let Some(s) = info.payload().downcast_ref::<String>() {
            s.clone()
        } else {
            "(non-string panic payload)".to_string()
        };
        let loc = info.location().map(|l| format!("{}:{}", l.file(), l.line())).unwrap_or_default();
        LAST_PANIC.with(|p| *p.borrow_mut() = format!("{} at {}", msg, loc));
    }));
}

pub fn last_panic() -> String {
    LAST_PANIC.with(|p| p.borrow().clone())
}

// ---------- explorer node ----------
#[derive(Clone)]
pub struct Node {
    pub gs: GameState,
    /// mailbox view (through the public accessors) of gs's board
    pub board: rm::Board,
    /// explorer's own counters (never read back from the engine)
    pub gold: bool,
    pub steps: usize,
    pub move_number: usize,
    pub pset: rm::PSet,
    /// raw boards after 0..=steps steps of this turn
    pub snaps: Vec<Raw>,
    /// all (board, side) turn-start positions since the root, including the current turn's start; never forgotten
    pub hist: Vec<(Raw, bool)>,
    /// for each entry of `hist`: how the turn that produced it ended: 0 root, 1 pass/no capture, 2 pass/capture earlier in the
    /// turn, 3 fourth step/no capture, 4 fourth step/capture earlier in the turn, 5 fourth step that itself captures
    pub hist_tag: Vec<u8>,
    /// did any step of the current turn capture (explorer's own record)
    pub captured_this_turn: bool,
    /// push/pull status expected by the statement of C12
    pub exp_status: u32,
}

/// How the root GameState object is produced (the three public ways to get a play-phase state).
#[derive(Clone, Debug)]
pub enum RootHow {
    /// GameState::new + PlayPhase::initial + Zobrist::from_piece_board (what from_str does, without the regex)
    Constructed,
    /// parsed from the printed diagram with GameState::from_str
    Parsed,
    /// GameState::initial() followed by these 32 placements (Gold's 16 letters, then Silver's 16)
    Setup(String),
}

pub struct RootInfo {
    pub how: RootHow,
    pub explorer: &'static str,
    pub family: String,
    pub idx: u64,
    pub board: rm::Board,
    pub gold: bool,
    pub move_number: usize,
    pub config: Value,
}

pub struct Ctx<'a> {
    pub checks: u32,
    pub prop: &'a str,
    pub root: &'a RootInfo,
    pub path: Vec<Action>,
    pub query: &'static str,
    pub stats: Stats,
    /// C08(b): feature tuple -> hash, single valued across all paths of this root / configuration
    pub hash_of_features: FxMap<(Raw, bool, u8, u32), u64>,
    /// C08(e): (board, side, step) -> first state seen with it
    pub rep_of_bss: FxMap<(Raw, bool, u8), GameState>,
    /// C04 depends on (board, side) only: turn-start positions already judged in this root / configuration
    /// (turn-start board, side, how many times this position has stood at a turn start in this game so far, capped at 3):
    /// the result must be the same at every occurrence, so each occurrence count is evaluated once
    pub c04_seen: FxSet<(Raw, bool, u8)>,
}

impl<'a> Ctx<'a> {
    pub fn new(checks: u32, prop: &'a str, root: &'a RootInfo) -> Self {
        Ctx {
            checks,
            prop,
            root,
            path: Vec::new(),
            query: "",
            stats: Stats::default(),
            hash_of_features: FxMap::default(),
            rep_of_bss: FxMap::default(),
            c04_seen: FxSet::default(),
        }
    }
    pub fn on(&self, c: u32) -> bool {
        self.checks & c != 0
    }
    pub fn fail(&mut self, what: &str, observed: String, expected: String) {
        self.fail_with_extra(None, what, observed, expected)
    }
    pub fn fail_with_extra(&mut self, extra: Option<&Action>, what: &str, observed: String, expected: String) {
        let mut actions: Vec<String> = self.path.iter().map(|a| a.to_string()).collect();
        if let Some(a) = extra {
            actions.push(a.to_string());
        }
        report::report(Violation {
            property: self.prop.to_string(),
            explorer: self.root.explorer.to_string(),
            family: self.root.family.clone(),
            root_idx: self.root.idx,
            root: rm::diagram(&self.root.board, self.root.gold, self.root.move_number),
            config: {
                let mut c = self.root.config.clone();
                if c.is_null() {
                    c = serde_json::json!({});
                }
                c["root_built_by"] = match &self.root.how {
                    RootHow::Constructed => serde_json::json!("constructors"),
                    RootHow::Parsed => serde_json::json!("from_str"),
                    RootHow::Setup(o) => serde_json::json!({"setup": o}),
                };
                c
            },
            actions,
            what: what.to_string(),
            observed,
            expected,
        });
    }
}

pub fn root_node(root: &RootInfo) -> Node {
    let gs = match &root.how {
        RootHow::Constructed => state_from_board(&root.board, root.gold, root.move_number),
        RootHow::Parsed => rm::diagram(&root.board, root.gold, root.move_number).parse::<GameState>().expect("printed root diagram parses"),
        RootHow::Setup(order) => {
            let mut g = GameState::initial();
            for c in order.chars() {
                g = g.take_action(&c.to_string().parse::<Action>().expect("placement letter"));
            }
            g
        }
    };
    let r = raw(gs.piece_board());
    Node {
        gs,
        board: root.board,
        gold: root.gold,
        steps: 0,
        move_number: root.move_number,
        pset: rm::PSet::start(),
        snaps: vec![r],
        hist: vec![(r, root.gold)],
        hist_tag: vec![0],
        captured_this_turn: false,
        exp_status: 0,
    }
}

fn terminal_of(w: Option<rm::Winner>) -> Option<Terminal> {
    w.map(|w| match w {
        rm::Winner::Gold => Terminal::GoldWin,
        rm::Winner::Silver => Terminal::SilverWin,
    })
}

fn std_hash_of(gs: &GameState) -> u64 {
    let mut h = std::collections::hash_map::DefaultHasher::new();
    gs.hash(&mut h);
    h.finish()
}

/// Full observable fingerprint of a state (for C18's "never modified after construction").
pub fn fingerprint(gs: &GameState) -> u64 {
    let mut v: Vec<u64> = Vec::with_capacity(32);
    v.extend_from_slice(&raw(gs.piece_board()));
    v.push(gs.is_p1_turn_to_move() as u64);
    v.push(gs.move_number() as u64);
    v.push(gs.transposition_hash());
    if let Some(pp) = gs.as_play_phase() {
        v.push(pp.step() as u64);
        v.push(pps_code(pp.push_pull_state()) as u64);
        v.push(pp.piece_trapped_this_turn() as u64);
        for b in pp.previous_piece_boards() {
            v.extend_from_slice(&raw(b.piece_board()));
        }
        for z in pp.hash_history().iter() {
            v.push(z.board_state_hash());
        }
    }
    sip(&v)
}

thread_local! {
    static DIAGRAM_SEEN: RefCell<FxSet<Raw>> = RefCell::new(FxSet::default());
}

/// Reads a printed diagram the way the documented grid is laid out, tolerating cosmetic differences (frame lines, trailing
/// blanks): a rank line is a line that starts (after optional blanks) with its rank digit and '|'; between that bar and the
/// next one, cell k of the rank is the character at odd position 1 + 2k (the positions `from_str` samples), the characters
/// at the even positions in between must be blanks.  Every rank 8..1 must occur exactly once.
/// Returns (header line, 64 cell characters, index 0 = a8).
pub fn read_diagram(text: &str) -> Result<(String, Vec<char>), String> {
    let lines: Vec<&str> = text.split('\n').collect();
    let mut cells = vec!['?'; 64];
    let mut seen = [false; 8];
    for line in lines.iter() {
        let t = line.trim_start();
        let mut it = t.chars();
        let (d, bar) = (it.next(), it.next());
        let rank = match (d.and_then(|c| c.to_digit(10)), bar) {
            (Some(r), Some('|')) if (1..=8).contains(&r) => r as usize,
            _ => continue,
        };
        if seen[rank - 1] {
            return Err(format!("rank {} is printed twice", rank));
        }
        seen[rank - 1] = true;
        let inner: Vec<char> = t[2..].split('|').next().unwrap_or("").chars().collect();
        if inner.len() < 16 {
            return Err(format!("rank line {} too short: {:?}", rank, line));
        }
        for k in 0..8 {
            if inner[2 * k] != ' ' {
                return Err(format!("rank line {} malformed: {:?}", rank, line));
            }
            cells[(8 - rank) * 8 + k] = inner[1 + 2 * k];
        }
        if inner[16..].iter().any(|&c| c != ' ') {
            return Err(format!("rank line {} has a ninth cell: {:?}", rank, line));
        }
    }
    if seen.iter().any(|&b| !b) {
        return Err(format!("not every rank 1..8 has a line: {:?}", seen));
    }
    Ok((lines[0].to_string(), cells))
}

pub struct Sink<'s> {
    pub stats: &'s mut Stats,
    pub out: Option<(String, String, String)>,
}
impl<'s> Sink<'s> {
    fn fail(&mut self, what: &str, observed: String, expected: String) {
        if self.out.is_none() {
            self.out = Some((what.to_string(), observed, expected));
        }
    }
}

/// C10 view-agreement invariants on one state; returns the first disagreement found.
pub fn c10_views(stats: &mut Stats, gs: &GameState, after_action: bool) -> Option<(String, String, String)> {
    let mut sink = Sink { stats, out: None };
    c10_views_inner(&mut sink, gs, after_action);
    sink.out
}

fn c10_views_inner(ctx: &mut Sink, gs: &GameState, after_action: bool) {
    let pb = gs.piece_board();
    let r = raw(pb);
    let types = &r[2..8];
    let mut union = 0u64;
    for i in 0..6 {
        for j in (i + 1)..6 {
            if types[i] & types[j] != 0 {
                ctx.fail("C10: two per-type boards share a square", format!("{:?}", r), "pairwise disjoint".into());
                return;
            }
        }
        union |= types[i];
    }
    if union != r[1] {
        ctx.fail("C10: all_pieces is not the union of the per-type boards", format!("all={:#x} union={:#x}", r[1], union), "equal".into());
        return;
    }
    if r[0] & !r[1] != 0 {
        ctx.fail("C10: p1_pieces has a bit outside all_pieces", format!("p1={:#x} all={:#x}", r[0], r[1]), "p1 subset of all".into());
        return;
    }
    // accessors against raw fields
    if pb.player_piece_mask(true) != r[0] || pb.player_piece_mask(false) != r[1] & !r[0] {
        ctx.fail("C10: player_piece_mask disagrees with raw fields", format!("{:#x}/{:#x}", pb.player_piece_mask(true), pb.player_piece_mask(false)), format!("{:#x}/{:#x}", r[0], r[1] & !r[0]));
        return;
    }
    let by_type = [Piece::Elephant, Piece::Camel, Piece::Horse, Piece::Dog, Piece::Cat, Piece::Rabbit];
    let mut counts = [[0u32; 6]; 2];
    for (k, &p) in by_type.iter().enumerate() {
        if pb.bits_by_piece_type(p) != types[k] {
            ctx.fail("C10: bits_by_piece_type disagrees with raw field", format!("{:?}", p), String::new());
            return;
        }
        let g = pb.bits_for_piece(p, true);
        let s = pb.bits_for_piece(p, false);
        if g != types[k] & r[0] || s != types[k] & !r[0] {
            ctx.fail("C10: bits_for_piece disagrees with raw fields", format!("{:?} gold={:#x} silver={:#x}", p, g, s), format!("gold={:#x} silver={:#x}", types[k] & r[0], types[k] & !r[0]));
            return;
        }
        counts[0][k] = g.count_ones();
        counts[1][k] = s.count_ones();
    }
    let limit = [1, 1, 2, 2, 2, 8];
    for s in 0..2 {
        for k in 0..6 {
            if counts[s][k] > limit[k] {
                ctx.fail("C10: more pieces of a kind than the Arimaa complement", format!("side {} kind {:?}: {}", s, by_type[k], counts[s][k]), format!("<= {}", limit[k]));
                return;
            }
        }
    }
    for i in 0..64usize {
        let sq = Square::from_index(i as u8);
        let t = pb.piece_type_at_square(&sq);
        let exp = (0..6).find(|&k| types[k] >> i & 1 == 1).map(|k| by_type[k]);
        if t != exp {
            ctx.fail("C10: piece_type_at_square disagrees with raw fields", format!("{} -> {:?}", sq, t), format!("{:?}", exp));
            return;
        }
    }
    if after_action {
        let b = match board_from_engine(pb) {
            Ok(b) => b,
            Err(e) => {
                ctx.fail("C10: accessor view inconsistent", e, String::new());
                return;
            }
        };
        for &t in rm::TRAPS.iter() {
            if b[t] != rm::EMPTY && !rm::has_friend(&b, t) {
                ctx.fail("C10: piece left standing on a trap without an adjacent friend", rm::sq_name(t), "removed".into());
                return;
            }
        }
    }
    // printed diagram, once per distinct board per worker thread
    let fresh = DIAGRAM_SEEN.with(|s| {
        let mut s = s.borrow_mut();
        if s.len() > 1_500_000 {
            s.clear();
        }
        s.insert(r)
    });
    if fresh {
        ctx.stats.add("c10_diagrams_read", 1);
        // the diagram as printed plainly, and as printed through ONE further format spec (rotating with the board): width,
        // fill, alignment, sign and alternate flags of the caller apply to the text as a whole at most (all widths used are
        // shorter than the text), never to its cells - the grid must be the same
        let plain = gs.to_string();
        let flagged = match (r[1] ^ (r[1] >> 17) ^ r[0]) % 7 {
            0 => format!("{:4}", gs),
            1 => format!("{:>2}", gs),
            2 => format!("{:<40}", gs),
            3 => format!("{:*^9}", gs),
            4 => format!("{:08}", gs),
            5 => format!("{:+}", gs),
            _ => format!("{:#}", gs),
        };
        ctx.stats.add("c10_diagrams_read_through_a_format_spec_with_flags", 1);
        for text in [plain, flagged] {
        match read_diagram(&text) {
            Err(e) => ctx.fail("C10: printed diagram does not have the documented grid", e, String::new()),
            Ok((_, cells)) => {
                for i in 0..64usize {
                    let exp = {
                        let k = (0..6).find(|&k| types[k] >> i & 1 == 1);
                        match k {
                            Some(k) => {
                                let l = ['e', 'm', 'h', 'd', 'c', 'r'][k];
                                if r[0] >> i & 1 == 1 {
                                    l.to_ascii_uppercase()
                                } else {
                                    l
                                }
                            }
                            None => {
                                if rm::is_trap(i) {
                                    'x'
                                } else {
                                    ' '
                                }
                            }
                        }
                    };
                    if cells[i] != exp {
                        ctx.fail("C10: printed diagram disagrees with the bitboards", format!("{} shows {:?}", rm::sq_name(i), cells[i]), format!("{:?}", exp));
                        return;
                    }
                    let sq = Square::from_index(i as u8);
                    if sq.to_string() != rm::sq_name(i) || sq.as_bit_board() != 1u64 << i {
                        ctx.fail("C10: bit i is not file i mod 8, rank 8 - i div 8", format!("{} {:#x}", sq, sq.as_bit_board()), rm::sq_name(i));
                        return;
                    }
                }
            }
        }
        }
    }
}

/// Expected status after a step, transcribed from the statement of C12.
/// `prev` is the expected status before the step, `mover_gold` the side on move, `c` the moved piece.
fn c12_expected(prev: u32, mover_gold: bool, from: usize, to: usize, c: rm::Cell) -> u32 {
    let enemy = rm::is_gold(c) != mover_gold;
    let st = rm::strength(c) as u32;
    let kind = prev & 3;
    let psq = ((prev >> 2) & 63) as usize;
    let pst = prev >> 8;
    if enemy {
        let completes_pull = kind == 1 && to == psq && st < pst;
        if completes_pull {
            0
        } else {
            2 | ((from as u32) << 2) | (st << 8)
        }
    } else {
        let completes_push = kind == 2;
        if !completes_push && st != rm::RABBIT as u32 {
            1 | ((from as u32) << 2) | (st << 8)
        } else {
            0
        }
    }
}

pub struct Successor {
    pub action: Action,
    pub node: Node,
    pub ends_turn: bool,
}

thread_local! {
    static C14_SCRATCH: std::cell::RefCell<Option<GameState>> = std::cell::RefCell::new(None);
}

/// Evaluates every enabled oracle on `node` and on each of its outgoing transitions; returns the successors
/// reached by offered actions (`valid_actions()`).
pub fn visit(ctx: &mut Ctx, node: &Node) -> Vec<Successor> {
    let gs = &node.gs;
    let k = node.steps;
    let fp_before = if ctx.on(C18) { fingerprint(gs) } else { 0 };

    ctx.query = "valid_actions_no_rep";
    let nr = gs.valid_actions_no_rep();
    ctx.query = "valid_actions";
    let va = gs.valid_actions();
    ctx.query = "is_terminal";
    let term = gs.is_terminal();
    ctx.query = "";
    ctx.stats.max("max_actions_offered_in_one_state", nr.len() as u64);
    ctx.stats.max("max_pieces_on_board", gs.piece_board().all_pieces.count_ones() as u64);

    let pp = match gs.as_play_phase() {
        Some(p) => p,
        None => {
            ctx.fail("state left the play phase", "PlacePhase".into(), "PlayPhase".into());
            return vec![];
        }
    };
    let status = pp.push_pull_state();
    let status_code = pps_code(status);

    if ctx.on(C19) {
        ctx.query = "can_pass";
        let _ = gs.can_pass(true);
        let _ = gs.can_pass(false);
        ctx.query = "has_move";
        let _ = gs.has_move(gs.piece_board());
        ctx.query = "transposition_hash";
        let _ = gs.transposition_hash();
        ctx.query = "to_string";
        let s = gs.to_string();
        ctx.stats.add("c19_queries", 8 + k as u64 + 2 * va.len() as u64);
        std::hint::black_box(s);
        ctx.query = "piece_board_for_step";
        for i in 0..=k {
            let _ = gs.piece_board_for_step(i);
        }
        ctx.query = "trapped_animal_for_action";
        for a in nr.iter() {
            let _ = gs.trapped_animal_for_action(a);
        }
        // the plain accessors of GameState / PlayPhase / PieceBoardState that are documented for the play phase
        ctx.query = "accessors";
        let pb = gs.piece_board();
        let mut acc = gs.is_play_phase() as u64 + gs.is_p1_turn_to_move() as u64 + gs.move_number() as u64 + gs.current_step() as u64;
        let pp2 = gs.unwrap_play_phase();
        acc += pp2.step() as u64 + pp2.piece_trapped_this_turn() as u64 + pp2.previous_piece_boards().len() as u64 + pp2.hash_history().len() as u64;
        acc += pps_code(pp2.push_pull_state()) as u64 + pp2.push_pull_state().as_possible_pull().is_some() as u64;
        acc ^= pb.trapped_piece_bits() ^ pb.player_piece_mask(true) ^ pb.player_piece_mask(false);
        for &p in PIECES.iter() {
            acc ^= pb.bits_for_piece(p, true) ^ pb.bits_for_piece(p, false) ^ pb.bits_by_piece_type(p);
        }
        let mut occ = pb.all_pieces;
        while occ != 0 {
            let i = occ.trailing_zeros();
            occ &= occ - 1;
            acc += pb.piece_type_at_square(&Square::from_index(i as u8)).is_some() as u64;
        }
        acc += std_hash_of(gs) & 1;
        std::hint::black_box(acc);
        ctx.query = "";
    }

    // ----- C01 -----
    let spec_all: Option<Vec<rm::LegalStep>> = if ctx.on(C01) { Some(rm::legal_steps(&node.board, node.gold, k, &node.pset)) } else { None };
    if let Some(spec) = spec_all.as_ref() {
        let spec_pass = rm::pass_legal(k, &node.pset);
        let mut eng: FxSet<(usize, usize)> = FxSet::default();
        let mut eng_pass = 0usize;
        for a in nr.iter() {
            match a {
                Action::Move(s, d) => {
                    if !eng.insert((s.index(), dir_index(*d))) {
                        ctx.fail("C01: action listed twice", a.to_string(), "each action once".into());
                    }
                }
                Action::Pass => eng_pass += 1,
                Action::Place(_) => ctx.fail("C01: placement offered in play phase", a.to_string(), "steps or pass".into()),
            }
        }
        if eng_pass > 1 {
            ctx.fail("C01: pass listed twice", actions_text(&nr), "each action once".into());
        }
        let spec_set: FxSet<(usize, usize)> = spec.iter().map(|l| (l.from, l.dir)).collect();
        if eng != spec_set {
            let mut only_e: Vec<String> = eng.difference(&spec_set).map(|&(f, d)| action_of(f, d).to_string()).collect();
            let mut only_s: Vec<String> = spec_set.difference(&eng).map(|&(f, d)| action_of(f, d).to_string()).collect();
            only_e.sort();
            only_s.sort();
            ctx.fail(
                "C01: offered steps differ from the legal steps of the reference rules",
                format!("engine-only [{}] (engine status {:?})", only_e.join(" "), status),
                format!("rules-only [{}] (parses {:?})", only_s.join(" "), node.pset.0),
            );
        }
        let pending = matches!(status, PushPullState::MustCompletePush(_, _));
        if (eng_pass == 1) != spec_pass || (eng_pass == 1) != (k >= 1 && !pending) {
            ctx.fail("C01: pass offered/withheld wrongly", format!("pass offered: {} (step {}, status {:?})", eng_pass == 1, k, status), format!("rules: {}", spec_pass));
        }
        if k >= 1 && nr.is_empty() {
            ctx.fail("C01: an offered step cannot be continued to a complete legal turn", "no action after it".into(), "at least one".into());
        }
        if status_code != 0 {
            ctx.stats.add("c01_states_with_push_or_pull_status", 1);
        }
        if node.pset.0.len() > 1 {
            ctx.stats.add("c01_states_with_ambiguous_parse", 1);
        }
        ctx.stats.class("c01_step_status_nactions", (k as u64) | ((status_code as u64 & 3) << 2) | ((nr.len() as u64) << 4));
    }

    // ----- C12 (state part) -----
    if ctx.on(C12) {
        if status_code != node.exp_status {
            ctx.fail("C12: reported push/pull status does not describe the previous step", format!("{:?}", status), format!("code {:#x} (kind {} square {} strength {})", node.exp_status, node.exp_status & 3, rm::sq_name(((node.exp_status >> 2) & 63) as usize), node.exp_status >> 8));
        }
        if let PushPullState::MustCompletePush(sq, pc) = status {
            ctx.stats.add("c12_states_push_pending", 1);
            let v = sq.index();
            let y = piece_strength(pc);
            let mut exp: Vec<Action> = vec![];
            for d in 0..4 {
                // a friend on p = neighbour of v such that stepping in direction d from p reaches v
                if let Some(p) = rm::nb(v, (d + 2) % 4) {
                    let c = node.board[p];
                    if c != rm::EMPTY && rm::is_gold(c) == node.gold && rm::strength(c) > y && !rm::frozen(&node.board, p) {
                        exp.push(action_of(p, d));
                    }
                }
            }
            let mut got = nr.clone();
            got.sort();
            exp.sort();
            if got != exp || exp.is_empty() {
                ctx.fail("C12: while a push is pending the rule-only list must be exactly the completing steps (at least one)", actions_text(&got), actions_text(&exp));
            }
        } else if let PushPullState::PossiblePull(_, _) = status {
            ctx.stats.add("c12_states_possible_pull", 1);
        }
    }

    // ----- C06 -----
    // computed below together with the successors (needs the resulting boards)

    // ----- C07 -----
    if ctx.on(C07) {
        if term.is_none() && va.is_empty() {
            ctx.fail("C07: no result reported but no action offered", "valid_actions() empty".into(), "non-empty".into());
        }
        if k > 0 {
            if term.is_some() != va.is_empty() {
                ctx.fail("C07: mid-turn result must be reported exactly when the offered list is empty", format!("is_terminal {:?}, {} actions", term, va.len()), "equivalent".into());
            }
            if let Some(t) = &term {
                let loss = if node.gold { Terminal::SilverWin } else { Terminal::GoldWin };
                if *t != loss {
                    ctx.fail("C07: mid-turn result must be a loss for the player on move", format!("{:?}", t), format!("{:?}", loss));
                }
                ctx.stats.add("c07_midturn_dead_ends", 1);
                if !nr.is_empty() {
                    ctx.stats.add("c07_midturn_dead_ends_by_repetition", 1);
                    if nr.contains(&Action::Pass) {
                        ctx.stats.add("c07_dead_ends_pass_withheld", 1);
                    }
                }
            }
        }
        ctx.query = "has_move";
        let hm = gs.has_move(gs.piece_board());
        if hm.is_none() != !va.is_empty() {
            ctx.fail("C07: has_move disagrees with the offered list", format!("{:?}", hm), format!("{} actions offered", va.len()));
        }
        ctx.query = "can_pass";
        let cp_t = gs.can_pass(true);
        let cp_f = gs.can_pass(false);
        ctx.query = "";
        if cp_t != va.contains(&Action::Pass) {
            ctx.fail("C07: can_pass(true) disagrees with valid_actions()", cp_t.to_string(), va.contains(&Action::Pass).to_string());
        }
        if cp_f != nr.contains(&Action::Pass) {
            ctx.fail("C07: can_pass(false) disagrees with valid_actions_no_rep()", cp_f.to_string(), nr.contains(&Action::Pass).to_string());
        }
        if va.len() < nr.len() {
            ctx.stats.add("c07_states_with_withheld_action", 1);
        }
    }

    // ----- C04 mid-turn clause -----
    if ctx.on(C04) && k > 0 {
        if term.is_some() && !va.is_empty() {
            ctx.fail("C04: a result is reported in the middle of a turn although actions are offered", format!("{:?}", term), "None".into());
        }
        if rm::rabbit_on_goal(&node.board, true) || rm::rabbit_on_goal(&node.board, false) || !rm::has_rabbit(&node.board, true) || !rm::has_rabbit(&node.board, false) {
            ctx.stats.add("c04_midturn_states_with_goal_or_elimination", 1);
        }
    }

    // ----- C14 -----
    if ctx.on(C14) {
        let prev = pp.previous_piece_boards();
        if prev.len() != k {
            ctx.fail("C14: number of recorded earlier boards", prev.len().to_string(), k.to_string());
        } else {
            for i in 0..=k {
                ctx.query = "piece_board_for_step";
                let b = raw(gs.piece_board_for_step(i));
                ctx.query = "";
                if b != node.snaps[i] {
                    ctx.fail("C14: piece_board_for_step(i) is not the board after i steps of this turn", format!("i={} {:?}", i, b), format!("{:?}", node.snaps[i]));
                }
                if i < k && raw(prev[i].piece_board()) != node.snaps[i] {
                    ctx.fail("C14: previous_piece_boards()[i] is not the board after i steps of this turn", format!("i={}", i), String::new());
                }
            }
            if k > 0 {
                ctx.stats.add("c14_midturn_states", 1);
            }
            // the same state obtained by overwriting, in place, the state this worker visited before (`Clone::clone_from`:
            // usually another step sequence of the same turn, sometimes of another turn or root) must report the same
            // boards: an implementation that reuses the destination's buffers must not keep any of its contents
            let mut scratch = C14_SCRATCH.with(|c| c.borrow_mut().take());
            match scratch.as_mut() {
                Some(sc) => sc.clone_from(gs),
                None => scratch = Some(gs.clone()),
            }
            let sc = scratch.unwrap();
            ctx.stats.add("c14_states_also_read_from_a_scratch_state_overwritten_with_clone_from", 1);
            for i in 0..=k {
                ctx.query = "piece_board_for_step";
                let b = raw(sc.piece_board_for_step(i));
                ctx.query = "";
                if b != node.snaps[i] {
                    ctx.fail("C14: after `scratch.clone_from(&state)` (scratch = the state visited before), scratch.piece_board_for_step(i) is not the board after i steps of this turn", format!("i={} {:?}", i, b), format!("{:?}", node.snaps[i]));
                    break;
                }
            }
            if sc != *gs {
                ctx.fail("C14: a state overwritten with clone_from does not compare equal to its source", "!=".into(), "==".into());
            }
            C14_SCRATCH.with(|c| *c.borrow_mut() = Some(sc));
        }
    }

    if ctx.on(C15) {
        parse_link(ctx, node, None);
    }
    if ctx.on(C15_TEXT) {
        c15_text(ctx, node);
    }

    // ----- C08 state part -----
    if ctx.on(C08) {
        c08_state(ctx, node, status);
    }

    // ----- C10 -----
    if ctx.on(C10) {
        let after = !ctx.path.is_empty();
        if let Some((w, o, e)) = c10_views(&mut ctx.stats, gs, after) {
            ctx.fail(&w, o, e);
        }
    }

    // ----- successors, edge oracles -----
    let turn_start_raw = node.snaps[0];
    let mut succ: Vec<Successor> = Vec::with_capacity(va.len());
    // C06 needs results of all rule-only actions
    let mut expected_offered: Vec<Action> = Vec::new();
    let mut withheld_unchanged = 0u64;
    let mut withheld_third = 0u64;
    if ctx.on(C06) {
        for a in nr.iter() {
            let ends = matches!(a, Action::Pass) || k == 3;
            if !ends {
                expected_offered.push(*a);
                continue;
            }
            ctx.query = "take_action";
            let t = gs.take_action(a);
            ctx.query = "";
            let tr = raw(t.piece_board());
            let unchanged = tr == turn_start_raw;
            let third = node.hist.iter().filter(|(b, s)| *b == tr && *s == !node.gold).count() >= 2;
            if third && !unchanged {
                if let Some(i) = node.hist.iter().position(|(b, s)| *b == tr && *s == !node.gold) {
                    ctx.stats.class("c06_third_occurrence_withheld_by_origin_of_first_occurrence", node.hist_tag[i] as u64);
                }
            }
            if unchanged || third {
                if unchanged {
                    withheld_unchanged += 1;
                } else {
                    withheld_third += 1;
                }
                ctx.stats.class("c06_withheld_kind", (matches!(a, Action::Pass) as u64) | ((unchanged as u64) << 1) | ((third as u64) << 2));
            } else {
                expected_offered.push(*a);
            }
        }
        if va != expected_offered {
            ctx.fail("C06: offered list is not the rule-only list minus exactly the turn-ending actions that break a repetition rule (same order)", actions_text(&va), actions_text(&expected_offered));
        }
        if withheld_unchanged + withheld_third > 0 {
            ctx.stats.add("c06_states_with_withheld_action", 1);
            ctx.stats.add("c06_withheld_unchanged_board", withheld_unchanged);
            ctx.stats.add("c06_withheld_third_occurrence", withheld_third);
        }
    }

    for a in va.iter() {
        let ends = matches!(a, Action::Pass) || k == 3;
        // C13 preview first (before applying)
        let preview = if ctx.on(C13) {
            ctx.query = "trapped_animal_for_action";
            let p = gs.trapped_animal_for_action(a);
            ctx.query = "";
            Some(p)
        } else {
            None
        };
        ctx.query = "take_action";
        let t = gs.take_action(a);
        ctx.query = "";
        ctx.stats.transitions += 1;
        let tr = raw(t.piece_board());
        let tboard = match board_from_engine(t.piece_board()) {
            Ok(b) => b,
            Err(e) => {
                ctx.fail_with_extra(Some(a), "board after the action is not a position (two kinds on one square)", e, String::new());
                continue;
            }
        };

        // what the rules say the step does
        let (from, dir) = match a {
            Action::Move(s, d) => (s.index(), dir_index(*d)),
            _ => (64, 0),
        };
        let is_move = from < 64;
        let geometry_ok = is_move && node.board[from] != rm::EMPTY && rm::nb(from, dir).map_or(false, |to| node.board[to] == rm::EMPTY);
        let spec_step = if geometry_ok { Some(rm::apply_step(&node.board, from, dir)) } else { None };

        if ctx.on(C02) {
            match a {
                Action::Pass => {
                    if tr != raw(gs.piece_board()) {
                        ctx.fail_with_extra(Some(a), "C02: a pass changed the board", format!("{:?}", tr), format!("{:?}", raw(gs.piece_board())));
                    }
                }
                Action::Move(_, _) => match &spec_step {
                    None => ctx.fail_with_extra(Some(a), "C02: offered step does not start on a piece or does not end on an empty adjacent square", a.to_string(), String::new()),
                    Some((nb_, removed)) => {
                        let exp = raw_from_board(nb_);
                        if tr != exp || tboard != *nb_ {
                            ctx.fail_with_extra(Some(a), "C02: board after the step differs from 'move one piece one square, then remove exactly the unsupported trap pieces'", format!("{:?}\n{}", tr, rm::diagram(&tboard, t.is_p1_turn_to_move(), 0)), format!("{:?}\n{}", exp, rm::diagram(nb_, t.is_p1_turn_to_move(), 0)));
                        }
                        for &(sq, c) in removed.iter() {
                            let to = rm::nb(from, dir).unwrap();
                            let moved = sq == to;
                            let enemy_moved = rm::is_gold(node.board[from]) != node.gold;
                            let cause = if moved {
                                if enemy_moved {
                                    if matches!(t.as_play_phase().map(|p| p.push_pull_state()), Some(PushPullState::MustCompletePush(_, _))) { 2 } else { 3 }
                                } else {
                                    0
                                }
                            } else {
                                1
                            };
                            let trap_i = rm::TRAPS.iter().position(|&x| x == sq).unwrap() as u64;
                            ctx.stats.class("c02_capture_trap_colour_cause", trap_i | ((rm::is_gold(c) as u64) << 2) | (cause << 3));
                            ctx.stats.add("c02_capturing_transitions", 1);
                        }
                    }
                },
                Action::Place(_) => {}
            }
        }

        if let Some(p) = preview {
            // diff of boards restricted to removed pieces
            let mut removed: Vec<(usize, rm::Cell)> = Vec::new();
            if is_move && geometry_ok {
                let to = rm::nb(from, dir).unwrap();
                for q in 0..64 {
                    if q != from && q != to && node.board[q] != rm::EMPTY && tboard[q] == rm::EMPTY {
                        removed.push((q, node.board[q]));
                    }
                }
                if tboard[to] == rm::EMPTY {
                    removed.push((to, node.board[from]));
                }
            } else {
                for q in 0..64 {
                    if node.board[q] != rm::EMPTY && tboard[q] == rm::EMPTY {
                        removed.push((q, node.board[q]));
                    }
                }
            }
            if removed.len() > 1 {
                ctx.fail_with_extra(Some(a), "C13: one step removed more than one piece", format!("{:?}", removed), "at most one".into());
            }
            let exp = removed.first().map(|&(q, c)| (q, rm::strength(c), rm::is_gold(c)));
            let got = p.map(|(s, pc, g)| (s.index(), piece_strength(pc), g));
            if got != exp {
                ctx.fail_with_extra(Some(a), "C13: capture preview differs from what applying the action removes", format!("{:?}", p), format!("{:?}", exp.map(|(q, s, g)| (rm::sq_name(q), s, g))));
            }
            if let Some((q, _, g)) = exp {
                let to = rm::nb(from, dir).unwrap_or(64);
                let trap_i = rm::TRAPS.iter().position(|&x| x == q).map(|x| x as u64).unwrap_or(7);
                ctx.stats.class("c13_capture_trap_colour_cause", trap_i | ((g as u64) << 3) | (((q == to) as u64) << 4));
                ctx.stats.add("c13_capturing_pairs", 1);
            }
            ctx.stats.add("c13_pairs", 1);
        }

        // explorer's own bookkeeping for the successor
        let (ngold, nsteps, nmove) = if ends { (!node.gold, 0, node.move_number + if node.gold { 0 } else { 1 }) } else { (node.gold, k + 1, node.move_number) };

        if ctx.on(C03) {
            let tp = t.as_play_phase();
            let tstep = tp.map(|p| p.step());
            if t.is_p1_turn_to_move() != ngold || tstep != Some(nsteps) || t.move_number() != nmove {
                ctx.fail_with_extra(Some(a), "C03: side / step counter / move number after the action", format!("side gold={} step={:?} move={}", t.is_p1_turn_to_move(), tstep, t.move_number()), format!("side gold={} step={} move={}", ngold, nsteps, nmove));
            }
            if let Some(s) = tstep {
                if s > 3 {
                    ctx.fail_with_extra(Some(a), "C03: step counter out of 0..=3", s.to_string(), "0..=3".into());
                }
            }
            if ends {
                if let Some(p) = tp {
                    if p.push_pull_state() != PushPullState::None || !p.previous_piece_boards().is_empty() || p.piece_trapped_this_turn() {
                        ctx.fail_with_extra(Some(a), "C03: a new turn must start with nothing pending and a fresh per-turn record", format!("status {:?}, {} earlier boards, trapped flag {}", p.push_pull_state(), p.previous_piece_boards().len(), p.piece_trapped_this_turn()), "None, 0, false".into());
                    }
                }
                ctx.stats.add(if matches!(a, Action::Pass) { "c03_turn_ends_by_pass" } else { "c03_turn_ends_by_fourth_step" }, 1);
                if !node.gold {
                    ctx.stats.add("c03_move_number_increments", 1);
                }
            }
        }

        if ctx.on(C05) && ends {
            if tr == turn_start_raw {
                ctx.fail_with_extra(Some(a), "C05: a completed turn left the board unchanged", format!("{:?}", tr), "different from the board at the start of the turn".into());
            }
            let before = node.hist.iter().filter(|(b, s)| *b == tr && *s == ngold).count();
            if before >= 2 {
                ctx.fail_with_extra(Some(a), "C05: position (board, side to move) occurs for the third time at a start of turn", format!("{} earlier occurrences", before), "at most 1".into());
            }
            ctx.stats.add("c05_turn_endings", 1);
            if before == 1 {
                ctx.stats.add("c05_second_occurrences", 1);
            }
        }

        // successor node
        let npset = if ends {
            rm::PSet::start()
        } else {
            // spec parse set after this step, if the rules allow it (only tracked when C01 is evaluated)
            match spec_all.as_ref() {
                Some(spec) => match spec.iter().find(|l| l.from == from && l.dir == dir) {
                    Some(l) => l.pset.clone(),
                    None => rm::PSet(vec![]), // illegal per rules: C01 reports it; descendants compare against an empty parse set
                },
                None => rm::PSet::start(),
            }
        };
        let exp_status = if ends || !geometry_ok { 0 } else { c12_expected(node.exp_status, node.gold, from, rm::nb(from, dir).unwrap(), node.board[from]) };
        let mut snaps;
        let mut hist = node.hist.clone();
        let mut hist_tag = node.hist_tag.clone();
        let captured_now = (tr[1].count_ones() as usize) < (raw(gs.piece_board())[1].count_ones() as usize);
        let captured_this_turn = if ends { false } else { node.captured_this_turn || captured_now };
        if ends {
            snaps = vec![tr];
            hist.push((tr, ngold));
            let tag = if matches!(a, Action::Pass) {
                if node.captured_this_turn { 2 } else { 1 }
            } else if captured_now {
                5
            } else if node.captured_this_turn {
                4
            } else {
                3
            };
            hist_tag.push(tag);
            ctx.stats.class("turn_end_classes", tag as u64);
            let before_n = node.hist.iter().filter(|(b, s)| *b == tr && *s == ngold).count();
            if before_n == 1 {
                if let Some(i) = node.hist.iter().position(|(b, s)| *b == tr && *s == ngold) {
                    ctx.stats.class("c05_second_occurrence_by_origin_of_first_occurrence", node.hist_tag[i] as u64);
                }
            }
        } else {
            snaps = node.snaps.clone();
            snaps.push(tr);
        }
        let nnode = Node { gs: t, board: tboard, gold: ngold, steps: nsteps, move_number: nmove, pset: npset, snaps, hist, hist_tag, captured_this_turn, exp_status };

        if ends {
            turn_start_oracles(ctx, &nnode, Some(a));
        }
        succ.push(Successor { action: *a, node: nnode, ends_turn: ends });
    }

    if ctx.on(C18) {
        let fp_after = fingerprint(gs);
        if fp_after != fp_before {
            ctx.fail("C18: a state was modified by being queried / expanded", format!("{:016x}", fp_after), format!("{:016x}", fp_before));
        }
        ctx.stats.add("c18_states_fingerprinted_before_and_after", 1);
    }
    succ
}

fn c08_state(ctx: &mut Ctx, node: &Node, status: PushPullState) {
    let gs = &node.gs;
    let r = raw(gs.piece_board());
    ctx.query = "transposition_hash";
    let h = gs.transposition_hash();
    ctx.query = "Zobrist::from_piece_board";
    let scratch = Zobrist::from_piece_board(gs.piece_board(), node.gold, node.steps).board_state_hash_with_push_pull_state(status);
    ctx.query = "";
    if h != scratch {
        ctx.fail("C08: transposition hash differs from the hash computed from scratch", format!("{:016x}", h), format!("{:016x}", scratch));
    }
    let key = (r, node.gold, node.steps as u8, pps_code(status));
    match ctx.hash_of_features.get(&key) {
        Some(&h0) => {
            if h0 != h {
                ctx.fail("C08: two paths to the same (board, side, step, status) give different hashes", format!("{:016x}", h), format!("{:016x}", h0));
            }
            ctx.stats.add("c08_states_reached_again_by_another_path", 1);
        }
        None => {
            ctx.hash_of_features.insert(key, h);
        }
    }
    let key2 = (r, node.gold, node.steps as u8);
    match ctx.rep_of_bss.get(&key2) {
        Some(g0) => {
            if !(g0 == gs) || std_hash_of(g0) != std_hash_of(gs) {
                ctx.fail("C08: two states with the same board, side and step do not compare / hash equal", "!= or different std hash".into(), "== and equal std hash".into());
            }
        }
        None => {
            ctx.rep_of_bss.insert(key2, gs.clone());
        }
    }
}

/// Oracles for a state at the start of a turn (roots and states reached by a turn-ending action).
pub fn turn_start_oracles(ctx: &mut Ctx, node: &Node, via: Option<&Action>) {
    let gs = &node.gs;
    let occurrences = if ctx.on(C04) { node.hist.iter().filter(|(b, g)| *b == node.snaps[0] && *g == node.gold).count().min(3) as u8 } else { 0 };
    if ctx.on(C04) && ctx.c04_seen.insert((node.snaps[0], node.gold, occurrences)) {
        ctx.query = "is_terminal";
        let t = gs.is_terminal();
        ctx.query = "";
        let exp = terminal_of(rm::result_at_turn_start(&node.board, node.gold));
        if t != exp {
            ctx.fail_with_extra(via, "C04: result at the start of the turn does not follow the official order", format!("{:?}", t), format!("{:?}", exp));
        }
        let b = &node.board;
        let mover = node.gold;
        let vec5 = (rm::rabbit_on_goal(b, !mover) as u64)
            | (rm::rabbit_on_goal(b, mover) as u64) << 1
            | (!rm::has_rabbit(b, mover) as u64) << 2
            | (!rm::has_rabbit(b, !mover) as u64) << 3
            | (rm::legal_steps(b, mover, 0, &rm::PSet::start()).is_empty() as u64) << 4;
        ctx.stats.class("c04_condition_vectors", vec5 | (mover as u64) << 5);
        ctx.stats.add("c04_turn_start_states", 1);
        if exp.is_some() {
            ctx.stats.add("c04_decided_turn_starts", 1);
        }
    }
    if ctx.on(C08) {
        if let Some(pp) = gs.as_play_phase() {
            let scratch = Zobrist::from_piece_board(gs.piece_board(), node.gold, 0);
            {
                let _ = scratch; // (the statement does not demand that the newest position is already recorded, only that what is recorded is right)
                // every recorded hash is the from-scratch hash of some turn-start position of this game
                let known: Vec<Zobrist> = node.hist.iter().map(|(r, s)| Zobrist::from_piece_board(piece_board_from_raw(r).piece_board(), *s, 0)).collect();
                for z in pp.hash_history().iter() {
                    if !known.contains(z) {
                        ctx.fail_with_extra(via, "C08: a recorded start-of-turn hash is not the hash of any start-of-turn position of this game", format!("{:?}", z), "one of the positions played".into());
                        break;
                    }
                }
                ctx.stats.add("c08_turn_ends_checked", 1);
            }
        }
    }
    if ctx.on(PARSE_LINK) || (ctx.on(PARSE_LINK_ROOT) && via.is_none()) {
        parse_link(ctx, node, via);
    }
}

thread_local! {
    static TEXT_SEEN: RefCell<FxSet<u64>> = RefCell::new(FxSet::default());
}

/// C15 on every state of a bulk family: the printed text must show this state's board, side and move number (harness's
/// own reader); texts not yet seen by this worker also go through the full parse round trip.
fn c15_text(ctx: &mut Ctx, node: &Node) {
    let gs = &node.gs;
    ctx.query = "to_string";
    let text = gs.to_string();
    ctx.query = "";
    ctx.stats.add("c15_states_printed_and_read_back", 1);
    match read_diagram(&text) {
        Err(e) => ctx.fail("printed position does not have the documented grid", e, String::new()),
        Ok((header, cells)) => {
            let mut bad = None;
            for i in 0..64usize {
                let exp = if node.board[i] != rm::EMPTY {
                    rm::cell_letter(node.board[i])
                } else if rm::is_trap(i) {
                    'x'
                } else {
                    ' '
                };
                if cells[i] != exp {
                    bad = Some((i, cells[i], exp));
                    break;
                }
            }
            // header: a move number followed by a side letter (g / w = Gold, s / b = Silver: what the parser accepts)
            let h = header.trim();
            let digits: String = h.chars().take_while(|c| c.is_ascii_digit()).collect();
            let side = h[digits.len()..].chars().next();
            let header_ok = digits.parse::<usize>().ok() == Some(gs.move_number()) && h.len() == digits.len() + 1 && match side {
                Some('g') | Some('w') => gs.is_p1_turn_to_move(),
                Some('s') | Some('b') => !gs.is_p1_turn_to_move(),
                _ => false,
            };
            if let Some((i, got, exp)) = bad {
                ctx.fail("parse(print(s)) differs from s", format!("the printed diagram shows {:?} on {}", got, rm::sq_name(i)), format!("{:?} (the state's board)", exp));
            } else if !header_ok {
                ctx.fail("parse(print(s)) differs from s", format!("printed header {:?}", header), format!("move number {} and {} to move", gs.move_number(), if gs.is_p1_turn_to_move() { "Gold" } else { "Silver" }));
            }
        }
    }
    let fresh = TEXT_SEEN.with(|s| {
        let mut s = s.borrow_mut();
        if s.len() > 2_000_000 {
            s.clear();
        }
        s.insert(sip(&text))
    });
    if fresh {
        parse_link(ctx, node, None);
    }
}

pub fn piece_board_from_raw(r: &Raw) -> PieceBoard {
    PieceBoard::new(r[0], r[2], r[3], r[4], r[5], r[6], r[7])
}

/// parse(print(s)) for a turn-start state s: same board, side, move number, print, hash, ==, std hash.
pub fn parse_link(ctx: &mut Ctx, node: &Node, via: Option<&Action>) {
    let gs = &node.gs;
    ctx.query = "to_string";
    let text = gs.to_string();
    ctx.query = "from_str";
    let parsed: Result<GameState, _> = text.parse();
    ctx.query = "";
    ctx.stats.add("parse_links", 1);
    match parsed {
        Err(e) => ctx.fail_with_extra(via, "printed position does not parse", e.to_string(), "Ok".into()),
        Ok(t) => {
            let ok_board = raw(t.piece_board()) == raw(gs.piece_board());
            let ok_side = t.is_p1_turn_to_move() == gs.is_p1_turn_to_move();
            let ok_mn = t.move_number() == gs.move_number();
            let ok_print = t.to_string() == text;
            let ok_start = t.as_play_phase().map_or(false, |p| p.step() == 0 && p.push_pull_state() == PushPullState::None);
            if !(ok_board && ok_side && ok_mn && ok_print && ok_start) {
                ctx.fail_with_extra(via, "parse(print(s)) differs from s", format!("board {} side {} move {} print {} start-of-turn {}", ok_board, ok_side, ok_mn, ok_print, ok_start), "all true".into());
            }
            if node.steps == 0 {
                if t.transposition_hash() != gs.transposition_hash() || !(t == *gs) || std_hash_of(&t) != std_hash_of(gs) {
                    ctx.fail_with_extra(via, "parse(print(s)) of a start-of-turn state has a different hash / compares unequal", format!("{:016x}", t.transposition_hash()), format!("{:016x}", gs.transposition_hash()));
                }
            }
        }
    }
}

/// Seen-key of a node within one root (E1).  For multi-turn runs the turn index, side and turn-start board are part
/// of the key (within a bound of two turns the history of a state is exactly {root, its turn-start board}).
pub type TurnKey = (Raw, u8, u32, bool, u64, bool, u8, Raw, u64);

/// `path_sensitive` (C14): the boards passed through earlier in the turn are part of the key, so two different step
/// orders leading to the same position are both expanded (what a state reports about the earlier boards of its turn -
/// and what its successors inherit - depends on the path, not on the position).
pub fn turn_key(n: &Node, multi_turn: bool, path_sensitive: bool) -> TurnKey {
    let pp = n.gs.as_play_phase();
    let path = if path_sensitive { sip(&n.snaps) } else { 0 };
    (
        raw(n.gs.piece_board()),
        n.steps as u8,
        pp.map_or(0, |p| pps_code(p.push_pull_state())),
        pp.map_or(false, |p| p.piece_trapped_this_turn()),
        n.pset.code(),
        n.gold,
        if multi_turn { n.hist.len() as u8 } else { 0 },
        if multi_turn { n.snaps[0] } else { [0; 8] },
        path,
    )
}
