mod e1;
mod e2;
mod e3;
mod e4;
mod e5;
mod e7;
mod explore;
mod families;
mod glue;
mod paths;
mod refmodel;
mod report;
mod sym;
#[cfg(feature = "sr")]
mod srx;

use explore::*;
use report::Evidence;
use std::path::PathBuf;
use std::time::{Duration, Instant};

pub fn verif_dir() -> PathBuf {
    std::env::var("VERIF_DIR").map(PathBuf::from).unwrap_or_else(|_| PathBuf::from("/verif"))
}

fn usage() -> ! {
    eprintln!("usage: mc <C01..C20> [quick|thorough]   |   mc replay <violation.json>");
    std::process::exit(2)
}

fn main() {
    let args: Vec<String> = std::env::args().collect();
    if args.len() < 2 {
        usage();
    }
    install_panic_hook();
    let t0 = Instant::now();
    if args[1] == "genmax" {
        genmax();
        return;
    }
    if args[1] == "genmax2" {
        genmax2();
        return;
    }
    if args[1] == "genseeds" {
        genseeds();
        return;
    }
    #[cfg(feature = "sr")]
    if args[1] == "srcheck" {
        install_panic_hook();
        let rows = srx::cross_check(&e2::configs(false));
        let mut bad = 0;
        for (name, a, b) in rows.iter() {
            println!("{} E2={} stateright={} {}", if a == b { "ok      " } else { "MISMATCH" }, a, b, name);
            if a != b {
                bad += 1;
            }
        }
        println!("srcheck: {} configurations compared, {} mismatches", rows.len(), bad);
        std::process::exit(if bad == 0 { 0 } else { 2 });
    }
    if args[1] == "replay" {
        let code = replay(args.get(2).map(|s| s.as_str()).unwrap_or_else(|| usage()));
        std::process::exit(code);
    }
    let id = args[1].as_str();
    let tier = args.get(2).cloned().or_else(|| std::env::var("VERIF_TIER").ok()).unwrap_or_else(|| "quick".into());
    let thorough = tier == "thorough";
    let mut ev = Evidence::new(id, if thorough { "thorough" } else { "quick" });
    match id {
        "C01" | "C02" | "C03" | "C04" | "C07" | "C08" | "C10" | "C12" | "C13" | "C14" | "C19" | "C05" | "C06" => {
            // cheap, deep explorers first (never capped); the bulk E1 families last (wall-capped in the quick tier)
            run_e2_property(id, thorough, &mut ev);
            if matches!(id, "C03" | "C04" | "C07" | "C08" | "C10" | "C13" | "C19") && !report::stopped() {
                run_e3_property(id, thorough, &mut ev);
            }
            if !report::stopped() {
                run_e1_property(id, thorough, &mut ev, t0);
            }
        }
        "C09" => {
            let checks = e3::C09 | if thorough { PARSE_LINK } else { 0 };
            ev.families.push(e3::run_trie(id, checks, "", 15, "Gold's complete placement trie"));
            let n_silver = if thorough { 24 } else { 2 };
            for g in e3::gold_setups(n_silver) {
                if report::stopped() { break; }
                ev.families.push(e3::run_trie(id, e3::C09, &g, 15, &format!("Silver's complete placement trie after Gold's order {}", g)));
            }
            if !report::stopped() {
                ev.families.push(e3::run_product(id, e3::C09, if thorough { 5 } else { 4 }));
            }
            ev.nontrivial_rule = "states = distinct placement prefixes (trie nodes), transitions = real place() calls; non-trivial = complete 32-piece setups reached (leaves of a Silver trie), each checked for the start-of-play conditions".into();
            ev.nontrivial_keys = vec!["c09_complete_setups"];
        }
        "C11" => {
            let deadline = Some(t0 + Duration::from_secs(if thorough { 3600 } else { 40 }));
            let cfgs = e2::configs(thorough);
            use rayon::prelude::*;
            let rs: Vec<_> = cfgs.par_iter().enumerate().map(|(i, c)| sym::run_config(id, c, i as u64)).collect();
            for r in rs {
                eprintln!("  {} : states={} transitions={} {:.1}s {}", r.family, r.stats.states, r.stats.transitions, r.wall_s, r.note);
                ev.families.push(r);
            }
            {
                let r = sym::run_scripts(id, paths::DISTANCE_NAME, &paths::distance_scripts(thorough));
                eprintln!("  {} : states={} transitions={} {:.1}s {}", r.family, r.stats.states, r.stats.transitions, r.wall_s, r.note);
                ev.families.push(r);
                let r = sym::run_scripts(id, paths::DRAGBACK_NAME, &paths::dragback_scripts(thorough));
                eprintln!("  {} : states={} transitions={} {:.1}s {}", r.family, r.stats.states, r.stats.transitions, r.wall_s, r.note);
                ev.families.push(r);
            }
            // Families closed under the symmetries are run with one primary per orbit (exact reduction, see sym::run_family);
            // the seeds are used as written (their images are the lock-step partners).  Quick: reduced kinds for F2,
            // hand-made + max-mobility seeds; thorough: all kinds, all seeds, 3-piece windows.
            let mut fams: Vec<(families::Family, bool)> = vec![
                (families::f1(), true),
                (families::fsetup(2, 2), false),
                (if thorough { families::f2() } else { families::f2k(&families::KINDS8, "RCDErcde") }, true),
                (families::fd(2, 2, families::all_anchors(2, 2), 3, "all 49 anchors"), true),
                (if thorough { families::fplus(families::interior_squares(), 3, "every interior square") } else { families::fplus(vec![18, 35], 3, "trap c6, d4") }, thorough),
                (if thorough { families::fs_variants(&verif_dir().join("seeds"), 1, 1) } else { families::fs_files(&verif_dir().join("seeds"), &["handmade.txt"], 1) }, false),
            ];
            if thorough {
                fams.push((families::f3w(None, &families::ALL_KINDS, "all 36 windows, all 12 kinds"), true));
            }
            // the seed family has few, heavy roots (sequential inside a root): it runs alongside the bulk families
            let run_one = |fam: &families::Family, orbit: bool| -> Option<report::FamilyResult> {
                if fam.n == 0 || report::stopped() {
                    return None;
                }
                let r = sym::run_family(id, fam, if thorough { deadline } else { None }, orbit);
                eprintln!("  {} : roots={} states={} transitions={} {:.1}s {}", r.family, r.stats.roots, r.stats.states, r.stats.transitions, r.wall_s, r.note);
                Some(r)
            };
            let (heavy, bulk): (Vec<_>, Vec<_>) = fams.iter().partition(|(f, _)| f.name.starts_with("FS "));
            let (rh, rb) = rayon::join(
                || heavy.iter().filter_map(|(f, o)| run_one(f, *o)).collect::<Vec<_>>(),
                || bulk.iter().filter_map(|(f, o)| run_one(f, *o)).collect::<Vec<_>>(),
            );
            ev.families.extend(rb);
            ev.families.extend(rh);
            if !thorough && !report::stopped() {
                // every seed board (all files, as written), shallow: the root, its successors and theirs are compared with
                // their images but not expanded further - the boards with the longest action lists (70+ steps) are here
                sym::STEP_LIMIT.store(2, std::sync::atomic::Ordering::Relaxed);
                let fam = families::fs_variants(&verif_dir().join("seeds"), 1, 1);
                if let Some(mut r) = run_one(&fam, false) {
                    r.family = format!("{} — shallow: states after 0, 1 and 2 steps compared, not expanded further", r.family);
                    ev.families.push(r);
                }
                sym::STEP_LIMIT.store(4, std::sync::atomic::Ordering::Relaxed);
            }
            ev.nontrivial_rule = "states = distinct primary states, each compared with its 3 images (counter c11_state_pairs_compared); non-trivial = primary states where the repetition rules withhold something + capturing transitions".into();
            ev.nontrivial_keys = vec!["c11_states_with_withheld_action", "c11_capturing_transitions"];
        }
        "C15" => run_c15(thorough, &mut ev, t0),
        "C16" => {
            ev.families.push(e4::c16_values(id));
            ev.families.push(e4::c16_aliases(id));
            ev.families.push(e4::c16_strings(id, if thorough { 5 } else { 4 }));
            ev.families.push(e4::c16_long_tails(id, if thorough { 300 } else { 130 }));
            ev.nontrivial_rule = "every string of the stated length over the stated alphabet is one case; non-trivial = strings accepted by some parser (counter e4_accepted) plus all value round trips".into();
            ev.nontrivial_keys = vec!["e4_accepted", "c16_action_values"];
        }
        "C17" => {
            ev.families.push(e5::run(id, thorough));
            ev.families.push(e5::run_ft_successors(id));
            ev.nontrivial_rule = "states = constructed states hashed; transitions = pairs of states differing in exactly one feature that were compared; non-trivial = pairs of push/pull statuses + step pairs + side pairs".into();
            ev.nontrivial_keys = vec!["c17_status_pairs", "c17_step_pairs", "c17_side_pairs"];
        }
        "C20" => {
            let (r, machinery1) = e7::run(id, thorough);
            ev.families.push(r);
            let (r2, machinery2) = e7::loom_b6(id, thorough);
            ev.families.push(r2);
            let machinery = machinery1 || machinery2;
            ev.nontrivial_rule = "one case = one child process (profile, stack size, ownership shape, history length N); non-trivial = runs whose history has at least 1e5 nodes (the lengths at which the unfixed recursive drop overflowed a 2 MiB stack were 2e4 (dev) / 8e4 (release))".into();
            ev.nontrivial_keys = vec!["c20_runs_with_at_least_1e5_history_nodes", "c20_loom_executions"];
            ev.assumptions.push("recursion depth of a recursive drop grows monotonically with the history length, so the longest passing length covers the shorter ones; the 256 KiB rows bound per-node stack use".into());
            if machinery {
                let _ = report::finish(&ev, t0.elapsed().as_secs_f64());
                println!("MACHINERY-ERROR: a stackchild run could not be evaluated (planned game not playable or binary missing)");
                std::process::exit(2);
            }
        }
        _ => usage(),
    }
    let code = report::finish(&ev, t0.elapsed().as_secs_f64());
    let tot = ev.total();
    println!("mc {} {}: roots={} states={} transitions={} violations={} wall={:.1}s", id, ev.tier, tot.roots, tot.states, tot.transitions, report::violation_count(), t0.elapsed().as_secs_f64());
    std::process::exit(code);
}

fn run_e1_property(id: &str, thorough: bool, ev: &mut Evidence, t0: Instant) {
    let checks = check_bit(id);
    // quick: the families are sized so that the whole check takes about 40-45 s on 16 unloaded cores; the wall cap is only a
    // safety net for a much slower or loaded machine (a capped family is reported as NOT complete, never as exhaustive)
    let cap = if thorough { Duration::from_secs(3300) } else { Duration::from_secs(100) };
    let deadline = Some(t0 + cap);
    let seeds = families::fs_with(&verif_dir().join("seeds"), thorough);
    // order: small / dense / deep families first (never capped), bulk families last (capped in the quick tier)
    let mut fams: Vec<families::Family> = vec![families::f1(), families::fsetup(if thorough { 12 } else { 4 }, if thorough { 8 } else { 3 }), seeds, if thorough { families::fplus(families::interior_squares(), 3, "every interior square") } else { families::fplus(vec![21, 35], 3, "trap f6, d4 (the plus around trap c3 is the padded family FPX)") }];
    if thorough || matches!(id, "C01" | "C02" | "C04" | "C07" | "C10" | "C12" | "C13") {
        fams.push(families::f3line());
    }
    let uncapped = fams.len();
    // C14 explores path-sensitively (every order of steps separately); the per-turn record does not depend on piece
    // kinds beyond rabbit / non-rabbit / strength order, so its quick tier uses six kinds for the 2-piece boards
    // all 144 kind pairs where the pairwise strength relation is the point (steps, pushes, pulls, freezing: C01, C07, C12)
    // and for the repetition properties (C05, C06: cheap oracles); the other quick tiers use four strength levels (every
    // single kind on every square, incl. its capture on every trap, is covered by F1)
    fams.push(if thorough || matches!(id, "C01" | "C05" | "C06" | "C07" | "C12") {
        families::f2()
    } else if id == "C14" {
        families::f2k(&families::KINDS6B, "RCErce")
    } else {
        families::f2k(&families::KINDS8, "RCDErcde")
    });
    if thorough || !matches!(id, "C05" | "C06" | "C08" | "C10" | "C14") {
        if thorough {
            fams.push(families::fd(2, 2, families::all_anchors(2, 2), 3, "all 49 anchors"));
        } else {
            if id == "C01" {
                // C01 carries the most families; its 2x2 fillings use the 16 anchors with file and row even (a tiling)
                let a: Vec<(usize, usize)> = families::all_anchors(2, 2).into_iter().filter(|(f, r)| f % 2 == 0 && r % 2 == 0).collect();
                fams.push(families::fd(2, 2, a, 3, "the 16 anchors with file and row even (a tiling of the board)"));
            } else {
                let a: Vec<(usize, usize)> = families::all_anchors(2, 2).into_iter().filter(|(f, r)| (f + r) % 2 == 0).collect();
                fams.push(families::fd(2, 2, a, 3, "the 25 anchors with file + row even (every square is covered)"));
            }
        }
    }
    if thorough {
        fams.push(families::f3w(None, &families::ALL_KINDS, "all 36 windows, all 12 kinds"));
        let a23: Vec<(usize, usize)> = vec![(0, 0), (1, 1), (4, 1), (2, 4), (5, 5), (3, 3)];
        let a32: Vec<(usize, usize)> = vec![(0, 0), (1, 1), (4, 4), (1, 4), (6, 5), (3, 2)];
        fams.push(families::fd(2, 3, a23, 3, "6 anchors (corner, trap neighbourhoods, centre)"));
        fams.push(families::fd(3, 2, a32, 3, "6 anchors (corner, trap neighbourhoods, centre)"));
        fams.push(families::f3r(&families::KINDS6, "RDErde"));
        fams.push(families::f4w(&families::KINDS6B, "RCErce"));
    } else if matches!(id, "C01" | "C02" | "C04" | "C07" | "C12" | "C13") {
        // three pieces at distance (pusher / victim / supporter or blocker): the properties about local rule geometry
        fams.push(families::f3w(Some(&families::QUICK_ANCHORS3), &families::KINDS6B, "3 windows (a1 corner, f6-centred, centre), kinds RCErce (three strength levels incl. the rabbit; every per-type code path is already covered on every square by F2)"));
    }
    let mut first_f1: Option<report::Stats> = None;
    // padded local family: the plus fillings around c3 (and, rotated and colour-swapped, around f6) with 16 background pieces
    for image in [false, true] {
        if report::stopped() {
            break;
        }
        // the rotated, colour-swapped image runs in quick only for the properties about local rule geometry
        if image && !thorough && !matches!(id, "C02" | "C10" | "C12" | "C13") {
            continue;
        }
        let (fam, mask) = families::fplus_padded(image, 3);
        // C04 is decided at turn starts: the padded roots themselves (21 pieces), not the turn-start states behind them
        let o = e1::E1Opts { prop: id, checks, move_number: 2, deadline: None, chunk: 1, roots_only: id == "C04" && !thorough, max_turns: 1, follow: Some(mask) };
        let r = e1::run_family(&fam, &o);
        eprintln!("  {} : roots={} states={} transitions={} {:.1}s {}", r.family, r.stats.roots, r.stats.states, r.stats.transitions, r.wall_s, r.note);
        ev.families.push(r);
    }
    {
        // starting move numbers around representation boundaries (every property: a counter that is too narrow or a
        // branch keyed on the move number shows on the smallest family); C03 gets the long list
        let mns: Vec<usize> = if id == "C03" { vec![1, 3, 50, 255, 300, 999, 9_999, 65_535, 70_000, 1_000_000, (1usize << 31) - 1, (1usize << 32) - 1, (1usize << 32) + 1] } else { vec![1, 999, 65_535, (1usize << 32) - 1] };
        for mn in mns {
            let o = e1::E1Opts { prop: id, checks, move_number: mn, deadline: None, chunk: 1, roots_only: false, max_turns: if id == "C03" { 2 } else { 1 }, follow: None };
            let mut r = e1::run_family(&families::f1(), &o);
            r.family = format!("{} — starting move number {}", r.family, mn);
            ev.families.push(r);
        }
        // ... and on the hand-made full boards
        for mn in [999usize, 65_535, (1usize << 32) - 1] {
            let fam = families::fs_files(&verif_dir().join("seeds"), &["handmade.txt"], 1);
            let o = e1::E1Opts { prop: id, checks, move_number: mn, deadline: None, chunk: 1, roots_only: false, max_turns: 1, follow: None };
            let mut r = e1::run_family(&fam, &o);
            r.family = format!("{} — starting move number {}", r.family, mn);
            ev.families.push(r);
        }
    }
    if id == "C03" && !report::stopped() {
        // "from any parsed position": positions with several unsupported pieces already on traps (one full turn; thorough: two)
        let o = e1::E1Opts { prop: id, checks, move_number: 31, deadline: None, chunk: 1, roots_only: false, max_turns: if thorough { 2 } else { 1 }, follow: None };
        let r = e1::run_family(&families::ftraps(), &o);
        eprintln!("  {} : roots={} states={} transitions={} {:.1}s {}", r.family, r.stats.roots, r.stats.states, r.stats.transitions, r.wall_s, r.note);
        ev.families.push(r);
    }
    if id == "C04" && !report::stopped() {
        let r = paths::run_scripts(id, checks, paths::DECIDED_NAME, &paths::decided_scripts());
        eprintln!("  {} : states={} transitions={} {:.1}s {} {}", r.family, r.stats.states, r.stats.transitions, r.wall_s, if r.complete { "complete" } else { "INCOMPLETE" }, r.note);
        ev.families.push(r);
        // C04 is decided at turn starts: dense corner / edge jams are evaluated at the root only (no expansion)
        let mut dense: Vec<families::Family> = vec![
            families::fd(2, 4, vec![(0, 0), (6, 0), (0, 4), (6, 4)], 4, "the 4 corners"),
            families::fd(4, 2, vec![(0, 0), (4, 0), (0, 6), (4, 6)], 4, "the 4 corners"),
        ];
        dense.push(families::f4border());
        dense.push(families::fmaterial());
        if thorough {
            dense.push(families::fd(3, 3, vec![(0, 0), (5, 0), (0, 5), (5, 5)], 4, "the 4 corners"));
            dense.push(families::fd(2, 4, vec![(3, 0), (3, 4), (0, 2), (6, 2)], 4, "edge middles"));
        }
        for fam in dense.iter() {
            let o = e1::E1Opts { prop: id, checks, move_number: 2, deadline: None, chunk: 1, roots_only: true, max_turns: 1, follow: None };
            let mut r = e1::run_family(fam, &o);
            r.family = format!("{} — turn-start oracle at the root only", r.family);
            eprintln!("  {} : roots={} {:.1}s", r.family, r.stats.roots, r.wall_s);
            ev.families.push(r);
        }
    }
    for (fi, fam) in fams.iter().enumerate() {
        if fam.n == 0 {
            continue;
        }
        let deadline = if fi < uncapped { None } else { deadline };
        let extra = if id == "C08" && fam.name.starts_with("F1 ") {
            PARSE_LINK
        } else if id == "C08" && fam.name.starts_with("FS ") {
            PARSE_LINK_ROOT
        } else {
            0
        };
        // C04 (decided at turn starts): in the quick tier the window families contribute their roots only (the turn-start
        // states reached from them are positions of the same families)
        let roots_only = id == "C04" && !thorough && (fam.name.starts_with("FD ") || fam.name.starts_with("F3W "));
        let o = e1::E1Opts { prop: id, checks: checks | extra, move_number: 2, deadline, chunk: 1, roots_only, max_turns: 1, follow: None };
        let r = e1::run_family(fam, &o);
        eprintln!("  {} : roots={} states={} transitions={} {:.1}s {}", r.family, r.stats.roots, r.stats.states, r.stats.transitions, r.wall_s, r.note);
        if fam.name.starts_with("F1 ") {
            first_f1 = Some(r.stats.clone());
        }
        ev.families.push(r);
        if report::stopped() {
            break;
        }
    }
    if thorough && !report::stopped() {
        let fs2 = families::fs2(&verif_dir().join("seeds"), 2);
        let o = e1::E1Opts { prop: id, checks, move_number: 3, deadline, chunk: 1, roots_only: false, max_turns: 1, follow: None };
        let r = e1::run_family(&fs2, &o);
        eprintln!("  {} : roots={} states={} transitions={} {:.1}s {}", r.family, r.stats.roots, r.stats.states, r.stats.transitions, r.wall_s, r.note);
        ev.families.push(r);
    }
    // determinism: the same family explored with a different thread partition must give identical counts and digest
    if let (Some(f1), false) = (first_f1, report::stopped()) {
        let pool = rayon::ThreadPoolBuilder::new().num_threads(3).build().unwrap();
        let o = e1::E1Opts { prop: id, checks, move_number: 2, deadline: None, chunk: 1, roots_only: false, max_turns: 1, follow: None };
        let again = pool.install(|| e1::run_family(&families::f1(), &o));
        if again.stats.states != f1.states || again.stats.transitions != f1.transitions || again.stats.digest != f1.digest {
            println!("MACHINERY-ERROR: re-exploring F1 with a different thread partition gave different counts/digest ({} / {} / {:016x} vs {} / {} / {:016x})", again.stats.states, again.stats.transitions, again.stats.digest, f1.states, f1.transitions, f1.digest);
            std::process::exit(2);
        }
        ev.extra.insert("determinism_rerun".into(), serde_json::json!({"family": "F1", "threads": 3, "states": again.stats.states, "transitions": again.stats.transitions, "digest": format!("{:016x}", again.stats.digest), "identical": true}));
    }
    ev.nontrivial_rule = "distinct = distinct (root, board, step, status, parse-set) keys; non-trivial counted per property in 'counters'".into();
    ev.nontrivial_keys = match id {
        "C01" => vec!["c01_states_with_push_or_pull_status"],
        "C05" => vec!["c05_second_occurrences"],
        "C06" => vec!["c06_states_with_withheld_action"],
        "C02" => vec!["c02_capturing_transitions"],
        "C03" => vec!["c03_turn_ends_by_pass", "c03_turn_ends_by_fourth_step"],
        "C04" => vec!["c04_decided_turn_starts"],
        "C07" => vec!["c07_states_with_withheld_action"],
        "C08" => vec!["c08_states_reached_again_by_another_path"],
        "C10" => vec!["c10_diagrams_read"],
        "C12" => vec!["c12_states_push_pending", "c12_states_possible_pull"],
        "C13" => vec!["c13_capturing_pairs"],
        "C14" => vec!["c14_midturn_states"],
        "C19" => vec!["c19_queries"],
        _ => vec![],
    };
}

/// Setup sub-tries for the properties that also quantify over setup states.
fn run_e3_property(id: &str, thorough: bool, ev: &mut Evidence) {
    let checks = check_bit(id) | if id == "C08" || id == "C15" { PARSE_LINK } else { 0 };
    let d = if thorough { 9 } else { 7 };
    ev.families.push(e3::run_trie(id, checks, "", d, "Gold sub-trie from the empty board"));
    ev.families.push(e3::run_trie(id, checks, "rhrdrcremrcrdrhr", d - 1, "Silver sub-trie after Gold's order rhrdrcremrcrdrhr"));
    // the last placements of Silver, down to the start of play (leaves): prefix of 16 + 10 placements
    ev.families.push(e3::run_trie(id, checks, "cdhmehdcrrrrrrrrrrrrrrhd", 15, "the last 8 placements of Silver after a fixed prefix, down to the start of play"));
}

fn run_e2_property(id: &str, thorough: bool, ev: &mut Evidence) {
    if thorough {
        if let Ok(t) = std::fs::read_to_string(verif_dir().join("target").join("srcheck.log")) {
            let lines: Vec<&str> = t.lines().filter(|l| l.starts_with("ok") || l.starts_with("MISMATCH") || l.starts_with("srcheck")).collect();
            ev.extra.insert("stateright_cross_check_of_E2".into(), serde_json::json!(lines));
        }
    }
    let checks = check_bit(id);
    let cfgs = e2::configs(thorough);
    for r in e2::run_lassos(id, checks, thorough) {
        eprintln!("  {} : states={} transitions={} {:.1}s {} {}", r.family, r.stats.states, r.stats.transitions, r.wall_s, if r.complete { "complete" } else { "INCOMPLETE" }, r.note);
        ev.families.push(r);
    }
    if thorough || matches!(id, "C03" | "C05" | "C06" | "C07" | "C08") {
        let r = paths::run_scripts(id, checks, paths::DISTANCE_NAME, &paths::distance_scripts(thorough));
        eprintln!("  {} : states={} transitions={} {:.1}s {} {}", r.family, r.stats.states, r.stats.transitions, r.wall_s, if r.complete { "complete" } else { "INCOMPLETE" }, r.note);
        ev.families.push(r);
        let r = paths::run_scripts(id, checks, paths::DRAGBACK_NAME, &paths::dragback_scripts(thorough));
        eprintln!("  {} : states={} transitions={} {:.1}s {} {}", r.family, r.stats.states, r.stats.transitions, r.wall_s, if r.complete { "complete" } else { "INCOMPLETE" }, r.note);
        ev.families.push(r);
        let r = paths::run_scripts(id, checks, paths::TWO_PIECE_NAME, &paths::two_piece_withheld_scripts());
        eprintln!("  {} : states={} transitions={} {:.1}s {} {}", r.family, r.stats.states, r.stats.transitions, r.wall_s, if r.complete { "complete" } else { "INCOMPLETE" }, r.note);
        ev.families.push(r);
    }
    if matches!(id, "C05" | "C06" | "C07") {
        let (scripts, arrangements, found) = paths::collision_scripts(thorough);
        let mut r = paths::run_scripts(id, checks, paths::COLLISION_NAME, &scripts);
        r.stats.add("e10_collision_arrangements_enumerated", arrangements);
        r.stats.add("e10_collision_pairs_found_all_windows", found);
        r.stats.add("e10_collision_games_played", scripts.len() as u64);
        eprintln!("  {} : pairs={} games={} states={} transitions={} {:.1}s {} {}", r.family, found, scripts.len(), r.stats.states, r.stats.transitions, r.wall_s, if r.complete { "complete" } else { "INCOMPLETE" }, r.note);
        ev.families.push(r);
    }
    for r in e2::run_seed_shuffles(id, checks, thorough) {
        eprintln!("  {} : states={} transitions={} {:.1}s {} {}", r.family, r.stats.states, r.stats.transitions, r.wall_s, if r.complete { "complete" } else { "INCOMPLETE" }, r.note);
        ev.families.push(r);
    }
    let mut cfgs = cfgs;
    if matches!(id, "C05" | "C06" | "C07" | "C08") {
        cfgs.extend(e2::kind_sweep(thorough));
    }
    let results = e2::run_configs(id, checks, &cfgs);
    // determinism: one configuration explored a second time (alone, on another worker) must reproduce counts and digest
    if !report::stopped() {
        if let Some(k) = (0..cfgs.len()).find(|&i| results[i].complete && results[i].stats.states < 50_000 && results[i].stats.states > 1_000) {
            let again = e2::run_config(id, checks, &cfgs[k], k as u64);
            let a = &results[k].stats;
            if again.stats.states != a.states || again.stats.transitions != a.transitions || again.stats.digest != a.digest {
                println!("MACHINERY-ERROR: re-exploring E2 configuration '{}' gave different counts/digest ({} / {} / {:016x} vs {} / {} / {:016x})", cfgs[k].name, again.stats.states, again.stats.transitions, again.stats.digest, a.states, a.transitions, a.digest);
                std::process::exit(2);
            }
            ev.extra.insert("determinism_rerun_e2".into(), serde_json::json!({"configuration": cfgs[k].name, "states": a.states, "transitions": a.transitions, "digest": format!("{:016x}", a.digest), "identical": true}));
        }
    }
    for r in results {
        eprintln!("  {} : states={} transitions={} {:.1}s {} {}", r.family, r.stats.states, r.stats.transitions, r.wall_s, if r.complete { "complete" } else { "INCOMPLETE" }, r.note);
        ev.families.push(r);
    }
}

fn run_c15(thorough: bool, ev: &mut Evidence, t0: Instant) {
    let id = "C15";
    ev.families.push(e4::c15_grammar(id, thorough));
    ev.families.push(e4::c15_short_strings(id, if thorough { 6 } else { 5 }));
    ev.families.push(e4::c15_long_tails(id, if thorough { 200 } else { 80 }));
    let deadline = Some(t0 + Duration::from_secs(if thorough { 3600 } else { 45 }));
    // round trips over reachable states: every state of F1 (all step prefixes), every F2 root, every FS state of one turn
    let o_all = e1::E1Opts { prop: id, checks: C15, move_number: 2, deadline, chunk: 1, roots_only: false, max_turns: 1, follow: None };
    ev.families.push(e1::run_family(&families::f1(), &o_all));
    for mn in [1usize, 3, 50, 1_000_000, (1usize << 32) + 1] {
        let o = e1::E1Opts { prop: id, checks: PARSE_LINK, move_number: mn, deadline, chunk: 1, roots_only: true, max_turns: 1, follow: None };
        let mut r = e1::run_family(&families::f1(), &o);
        r.family = format!("{} — roots only, starting move number {}", r.family, mn);
        ev.families.push(r);
    }
    if thorough {
        ev.families.push(e1::run_family(&families::f2(), &o_all));
    } else {
        // every state of every 2-piece board (four strength levels) and of the plus fillings around trap f6: printed, read
        // back with the harness's reader, parsed once per distinct text (mid-turn states with pending pushes, possible
        // pulls and captures earlier in the turn are where a printer that looks at more than the board goes wrong)
        let o_text = e1::E1Opts { prop: id, checks: C15_TEXT, move_number: 2, deadline, chunk: 1, roots_only: false, max_turns: 1, follow: None };
        ev.families.push(e1::run_family(&families::f2k(&families::KINDS8, "RCDErcde"), &o_text));
        ev.families.push(e1::run_family(&families::fplus(vec![21], 3, "trap f6"), &o_text));
    }
    if !thorough {
        let o = e1::E1Opts { prop: id, checks: PARSE_LINK, move_number: 2, deadline, chunk: 1, roots_only: true, max_turns: 1, follow: None };
        let mut r = e1::run_family(&families::f2(), &o);
        r.family = format!("{} — roots only", r.family);
        ev.families.push(r);
    }
    let fs = families::fs(&verif_dir().join("seeds"));
    if fs.n > 0 {
        let o = e1::E1Opts { prop: id, checks: PARSE_LINK, move_number: 2, deadline, chunk: 1, roots_only: !thorough, max_turns: 1, follow: None };
        ev.families.push(e1::run_family(&fs, &if thorough { e1::E1Opts { checks: C15, ..o } } else { o }));
    }
    // positions that recur later in the same game with another move number (scripted cyclic games; every state on the
    // path is printed and parsed back, in game order on one thread)
    {
        let scripts: Vec<paths::Script> = paths::distance_scripts(thorough).into_iter().filter(|s| thorough || s.config["own_turns_between_occurrences"].as_u64().unwrap_or(99) <= 5).collect();
        ev.families.push(paths::run_scripts(id, C15, paths::DISTANCE_NAME, &scripts));
    }
    // setup states and finished set-ups
    ev.families.push(e3::run_trie(id, PARSE_LINK, "", if thorough { 6 } else { 5 }, "Gold sub-trie from the empty board (every setup state printed and parsed back)"));
    ev.families.push(e3::run_trie(id, PARSE_LINK, "rhrdrcremrcrdrhr", if thorough { 5 } else { 4 }, "Silver sub-trie after Gold's order rhrdrcremrcrdrhr"));
    ev.families.push(e3::run_trie(id, PARSE_LINK, "cdhmehdcrrrrrrrrrrrrrrhd", 15, "the last 8 placements of Silver after a fixed prefix, down to the start of play"));
    ev.nontrivial_rule = "strings: every string of the stated grammar / length is one case, non-trivial = oversized diagrams + accepted strings; states: every visited state printed and parsed back (counter parse_links)".into();
    ev.nontrivial_keys = vec!["c15_oversized_diagrams", "parse_links"];
}

/// One-off generator of seeds/generated.txt: deterministic play-outs from two openings (the k-th offered action chosen
/// by a fixed linear congruential sequence - no randomness at run time; the committed text file is the family).
fn genseeds() {
    use arimaa_engine_step::*;
    let openings = ["rrrrrrrrhdcemcdh", "hdcmecdhrrrrrrrr"];
    let mut out = String::new();
    let mut count = 0;
    for (oi, o) in openings.iter().enumerate() {
        for game in 0..10u64 {
            let mut gs = GameState::initial();
            let gold: String = o.chars().collect();
            let silver: String = openings[(oi + game as usize) % 2].chars().collect();
            for c in gold.chars().chain(silver.chars()) {
                gs = gs.take_action(&c.to_string().parse().unwrap());
            }
            let mut x: u64 = 0x9E3779B97F4A7C15u64.wrapping_mul(game + 1 + 7 * oi as u64);
            let mut turns = 0;
            while turns < 90 {
                if gs.is_terminal().is_some() {
                    break;
                }
                let va = gs.valid_actions();
                if va.is_empty() {
                    break;
                }
                x = x.wrapping_mul(6364136223846793005).wrapping_add(1442695040888963407);
                // prefer steps over early passes so that positions develop
                let mut k = ((x >> 33) as usize) % va.len();
                if va[k] == Action::Pass && (x >> 20) % 3 != 0 {
                    k = 0;
                }
                let before = gs.is_p1_turn_to_move();
                gs = gs.take_action(&va[k]);
                if gs.is_p1_turn_to_move() != before {
                    turns += 1;
                    if [8, 16, 26, 40, 60, 85].contains(&turns) && gs.is_terminal().is_none() {
                        out.push_str(&format!("# generated: opening {} game {} after {} turns\n{}", oi, game, turns, gs));
                        count += 1;
                    }
                }
            }
        }
    }
    std::fs::write(verif_dir().join("seeds").join("generated.txt"), out).unwrap();
    println!("wrote {} seeds", count);
}

/// `mc replay <violation.json>`: rebuilds the situation with plain from_str / take_action calls (no explorer, no
/// enumeration), prints what the engine answers there, and re-evaluates the property's oracles along that one path.
fn replay(path: &str) -> i32 {
    use arimaa_engine_step::*;
    let text = std::fs::read_to_string(path).unwrap_or_else(|e| {
        eprintln!("cannot read {}: {}", path, e);
        std::process::exit(2)
    });
    let v: serde_json::Value = serde_json::from_str(&text).expect("violation file is JSON");
    let prop = v["property"].as_str().unwrap_or("").to_string();
    let explorer = v["explorer"].as_str().unwrap_or("").to_string();
    let actions: Vec<String> = v["actions"].as_array().map(|a| a.iter().filter_map(|x| x.as_str().map(String::from)).collect()).unwrap_or_default();
    println!("replaying {} ({}): {}", prop, explorer, v["what"].as_str().unwrap_or(""));
    println!("recorded: observed {} / expected {}", v["observed"], v["expected"]);
    match explorer.as_str() {
        "E4" => {
            let input = v["config"]["input"].as_str().unwrap_or("");
            let parser = v["config"]["parser"].as_str().unwrap_or("");
            let r = std::panic::catch_unwind(|| match parser {
                "Action" => format!("{:?}", input.parse::<Action>().map(|x| x.to_string()).map_err(|e| e.to_string())),
                "Square" => format!("{:?}", input.parse::<Square>().map(|x| x.to_string()).map_err(|e| e.to_string())),
                "Piece" => format!("{:?}", input.parse::<Piece>().map(|x| x.to_string()).map_err(|e| e.to_string())),
                "Direction" => format!("{:?}", input.parse::<Direction>().map(|x| x.to_string()).map_err(|e| e.to_string())),
                _ => format!("{:?}", input.parse::<GameState>().map(|x| x.to_string()).map_err(|e| e.to_string())),
            });
            match r {
                Ok(s) => {
                    println!("{}::from_str({:?}) now returns {}", parser, input, s);
                    0
                }
                Err(_) => {
                    println!("{}::from_str({:?}) PANICS: {}", parser, input, last_panic());
                    println!("VIOLATION property={} replay={}", prop, path);
                    1
                }
            }
        }
        "E5" | "E7" => {
            println!("constructed case: {}\n(re-run `./check {} quick` to re-evaluate; for E7 run the command in 'root' from /verif)", v["root"], prop);
            0
        }
        _ => {
            let root_text = v["root"].as_str().unwrap_or("");
            let mut gs: GameState = if root_text == "initial" { GameState::initial() } else { root_text.parse().expect("root diagram parses") };
            println!("root:\n{}", gs);
            for (i, a) in actions.iter().enumerate() {
                let act: Action = a.parse().expect("action parses");
                let offered = gs.valid_actions().contains(&act);
                gs = gs.take_action(&act);
                println!("after {:>2}. {}{}:", i + 1, a, if offered { "" } else { "  (NOT in valid_actions())" });
            }
            println!("{}", gs);
            let r = std::panic::catch_unwind(std::panic::AssertUnwindSafe(|| {
                println!("valid_actions()        = {:?}", gs.valid_actions());
                println!("valid_actions_no_rep() = {:?}", gs.valid_actions_no_rep());
                println!("is_terminal()          = {:?}", gs.is_terminal());
                println!("transposition_hash()   = {:016x}", gs.transposition_hash());
                if let Some(pp) = gs.as_play_phase() {
                    println!("step {} status {:?} trapped_this_turn {} history len {}", pp.step(), pp.push_pull_state(), pp.piece_trapped_this_turn(), pp.hash_history().len());
                }
            }));
            if r.is_err() {
                println!("PANIC while querying: {}", last_panic());
            }
            // re-evaluate the oracles of this property along the one recorded path
            if root_text != "initial" && !explorer.starts_with("E1x4") && !explorer.starts_with("E2x4") {
                if let Ok((board, gold, mn)) = families::board_from_diagram(root_text) {
                    let root = RootInfo { how: RootHow::Constructed, explorer: "replay", family: "replay".into(), idx: 0, board, gold, move_number: mn, config: serde_json::Value::Null };
                    let mut ctx = Ctx::new(check_bit(&prop) | if prop == "C01" { 0 } else { 0 }, &prop, &root);
                    let rr = std::panic::catch_unwind(std::panic::AssertUnwindSafe(|| {
                        let mut node = root_node(&root);
                        turn_start_oracles(&mut ctx, &node, None);
                        for a in actions.iter() {
                            let act: Action = a.parse().unwrap();
                            let succ = visit(&mut ctx, &node);
                            ctx.path.push(act);
                            match succ.into_iter().find(|s| s.action == act) {
                                Some(s) => node = s.node,
                                None => return,
                            }
                        }
                        let _ = visit(&mut ctx, &node);
                    }));
                    if rr.is_err() {
                        println!("PANIC in the engine during `{}`: {}", ctx.query, last_panic());
                        println!("VIOLATION property={} replay={}", prop, path);
                        return 1;
                    }
                }
                let vs = report::VIOLATIONS.lock().unwrap();
                if let Some(x) = vs.first() {
                    println!("oracle re-evaluated on this path: {}\n  observed: {}\n  expected: {}", x.what, x.observed, x.expected);
                    println!("VIOLATION property={} replay={}", prop, path);
                    return 1;
                } else {
                    println!("oracle re-evaluated on this path: no violation (the recorded failure does not reproduce on the current tree)");
                }
            }
            0
        }
    }
}

/// One-off generator of seeds/maxmobility.txt: deterministic hill climbing (move one piece to any empty square, keep
/// the best improvement) from three starting boards, maximising the number of offered actions at the root and after
/// its first offered steps.  The committed text file is the family; nothing is random.
/// One-off generator of seeds/bothmobile.txt: hill-climbs hand-made boards for positions in which BOTH sides have long
/// action lists and several pieces that can step out and back (what the E9 seed shuffles need to put a third
/// occurrence produced by a fourth step in front of a long list).  Deterministic; the committed text file is the family.
fn genmax2() {
    use refmodel as rm;
    let score = |b: &rm::Board| -> usize {
        if !rm::position_legal(b) || !rm::has_rabbit(b, true) || !rm::has_rabbit(b, false) || rm::rabbit_on_goal(b, true) || rm::rabbit_on_goal(b, false) {
            return 0;
        }
        let g = glue::state_from_board(b, true, 10).valid_actions().len();
        let s = glue::state_from_board(b, false, 10).valid_actions().len();
        let cg = e2::shuffle_candidates_pub(b, true).min(6);
        let cs = e2::shuffle_candidates_pub(b, false).min(6);
        if cg < 5 || cs < 5 {
            return cg + cs;
        }
        100 + g.min(s) * 4 + (g + s) / 4
    };
    let mut out = String::new();
    for file in ["handmade.txt", "handmade2.txt"] {
        let starts: Vec<String> = std::fs::read_to_string(verif_dir().join("seeds").join(file)).unwrap().split("# ").skip(1).map(|c| c.splitn(2, '\n').nth(1).unwrap_or("").to_string()).collect();
        for (si, text) in starts.iter().enumerate().take(4) {
            let (mut b, _, _) = match families::board_from_diagram(text) {
                Ok(x) => x,
                Err(_) => continue,
            };
            let mut cur = score(&b);
            loop {
                let mut best: Option<(usize, usize, usize)> = None;
                for from in 0..64 {
                    if b[from] == rm::EMPTY {
                        continue;
                    }
                    for to in 0..64 {
                        if b[to] != rm::EMPTY {
                            continue;
                        }
                        let mut nb = b;
                        nb[to] = nb[from];
                        nb[from] = rm::EMPTY;
                        let sc = score(&nb);
                        if sc > cur && best.map_or(true, |x| sc > x.0) {
                            best = Some((sc, from, to));
                        }
                    }
                }
                match best {
                    Some((sc, from, to)) => {
                        b[to] = b[from];
                        b[from] = rm::EMPTY;
                        cur = sc;
                    }
                    None => break,
                }
            }
            let g = glue::state_from_board(&b, true, 10).valid_actions().len();
            let sv = glue::state_from_board(&b, false, 10).valid_actions().len();
            out.push_str(&format!("# hill-climbed from {} #{} for both sides mobile: {} actions offered with Gold to move, {} with Silver to move\n{}", file, si, g, sv, rm::diagram(&b, true, 10)));
            println!("start {} {}: gold {} silver {}", file, si, g, sv);
        }
    }
    std::fs::write(verif_dir().join("seeds").join("bothmobile.txt"), out).unwrap();
}

fn genmax() {
    use arimaa_engine_step::*;
    use refmodel as rm;
    let score = |b: &rm::Board, gold: bool| -> usize {
        if !rm::position_legal(b) || !rm::has_rabbit(b, true) || !rm::has_rabbit(b, false) || rm::rabbit_on_goal(b, true) || rm::rabbit_on_goal(b, false) {
            return 0;
        }
        let s = glue::state_from_board(b, gold, 10);
        let va = s.valid_actions();
        let mut best = va.len();
        for a in va.iter().take(12) {
            best = best.max(s.take_action(a).valid_actions().len());
        }
        best
    };
    let starts: Vec<String> = std::fs::read_to_string(verif_dir().join("seeds").join("handmade2.txt")).unwrap().split("# ").skip(1).map(|c| c.splitn(2, '\n').nth(1).unwrap_or("").to_string()).collect();
    let mut out = String::new();
    for (si, text) in starts.iter().enumerate() {
        let (mut b, _, _) = match families::board_from_diagram(text) {
            Ok(x) => x,
            Err(_) => continue,
        };
        for gold in [true, false] {
            let mut cur = score(&b, gold);
            loop {
                let mut best: Option<(usize, usize, usize)> = None;
                for from in 0..64 {
                    if b[from] == rm::EMPTY {
                        continue;
                    }
                    for to in 0..64 {
                        if b[to] != rm::EMPTY {
                            continue;
                        }
                        let mut nb = b;
                        nb[to] = nb[from];
                        nb[from] = rm::EMPTY;
                        let sc = score(&nb, gold);
                        if sc > cur && best.map_or(true, |x| sc > x.0) {
                            best = Some((sc, from, to));
                        }
                    }
                }
                match best {
                    Some((sc, from, to)) => {
                        b[to] = b[from];
                        b[from] = rm::EMPTY;
                        cur = sc;
                    }
                    None => break,
                }
            }
            out.push_str(&format!("# hill-climbed from handmade2 #{} for {} to move: {} actions offered in its busiest early state\n{}", si, if gold { "Gold" } else { "Silver" }, cur, rm::diagram(&b, gold, 10)));
            println!("start {} {}: {}", si, if gold { "gold" } else { "silver" }, cur);
        }
    }
    std::fs::write(verif_dir().join("seeds").join("maxmobility.txt"), out).unwrap();
}
