//! Violations, statistics, evidence files.
use serde_json::{json, Value};
use std::collections::{BTreeMap, BTreeSet};
use std::sync::atomic::{AtomicBool, AtomicUsize, Ordering};
use std::sync::Mutex;

pub static STOP: AtomicBool = AtomicBool::new(false);
static NVIOL: AtomicUsize = AtomicUsize::new(0);
pub static VIOLATIONS: Mutex<Vec<Violation>> = Mutex::new(Vec::new());

#[derive(Clone, Debug)]
pub struct Violation {
    pub property: String,
    pub explorer: String,
    pub family: String,
    pub root_idx: u64,
    /// how to rebuild the root: a diagram for play-phase roots, "initial" for setup, or a free-form constructor note
    pub root: String,
    /// extra configuration the replay needs (E2 domains etc.)
    pub config: Value,
    pub actions: Vec<String>,
    pub what: String,
    pub observed: String,
    pub expected: String,
}

impl Violation {
    pub fn to_json(&self) -> Value {
        json!({
            "property": self.property, "explorer": self.explorer, "family": self.family,
            "root_idx": self.root_idx, "root": self.root, "config": self.config,
            "actions": self.actions, "what": self.what, "observed": self.observed, "expected": self.expected,
            "unit_test": self.unit_test(),
        })
    }
    /// A plain unit-test body that rebuilds the situation without the explorer.
    pub fn unit_test(&self) -> String {
        if self.root == "initial" {
            format!(
                "let mut s = arimaa_engine_step::GameState::initial();\nfor a in {:?} {{ s = s.take_action(&a.parse().unwrap()); }}\n// {}: observed {} expected {}",
                self.actions, self.what, self.observed, self.expected
            )
        } else {
            format!(
                "let mut s: arimaa_engine_step::GameState = {:?}.parse().unwrap();\nfor a in {:?} {{ s = s.take_action(&a.parse().unwrap()); }}\n// {}: observed {} expected {}",
                self.root, self.actions, self.what, self.observed, self.expected
            )
        }
    }
}

/// Class of a violation: property, what failed, and (for panics) the normalised panic message.  Used to keep a few
/// witnesses of *each* kind of failure rather than many of the first kind, and to match known findings.
pub fn signature(v: &Violation) -> String {
    let mut obs = String::new();
    if v.what.contains("panic") {
        // normalise digits so that "byte index 2" and "byte index 3" are one class, but keep file:line
        let (msg, loc) = match v.observed.rfind(" at ") {
            Some(i) => (&v.observed[..i], &v.observed[i..]),
            None => (v.observed.as_str(), ""),
        };
        let mut last_digit = false;
        for ch in msg.chars() {
            if ch.is_ascii_digit() {
                if !last_digit {
                    obs.push('N');
                }
                last_digit = true;
            } else {
                obs.push(ch);
                last_digit = false;
            }
        }
        let loc = loc.rsplit('/').next().unwrap_or("");
        obs.push_str(" @");
        obs.push_str(loc);
    }
    format!("{}|{}|{}", v.property, v.what, obs)
}

pub const MAX_PER_CLASS: usize = 2;
pub const MAX_CLASSES: usize = 12;

pub fn report(v: Violation) {
    NVIOL.fetch_add(1, Ordering::SeqCst);
    let sig = signature(&v);
    let mut all = VIOLATIONS.lock().unwrap();
    let same = all.iter().filter(|x| signature(x) == sig).count();
    if same < MAX_PER_CLASS {
        all.push(v);
    }
    let mut classes: Vec<String> = all.iter().map(signature).collect();
    classes.sort();
    classes.dedup();
    // stop exploring once a class has its witnesses and the run has produced plenty of violations
    if classes.len() >= MAX_CLASSES || NVIOL.load(Ordering::SeqCst) >= 2000 {
        STOP.store(true, Ordering::SeqCst);
    }
}

pub fn stopped() -> bool {
    STOP.load(Ordering::Relaxed)
}

pub fn violation_count() -> usize {
    NVIOL.load(Ordering::SeqCst)
}

/// Per-run counters.  Everything is merged associatively so the result does not depend on the rayon partition.
#[derive(Default, Clone, Debug)]
pub struct Stats {
    pub roots: u64,
    pub states: u64,
    pub transitions: u64,
    pub digest: u64,
    pub counters: BTreeMap<&'static str, u64>,
    pub classes: BTreeMap<&'static str, BTreeSet<u64>>,
    pub maxima: BTreeMap<&'static str, u64>,
    pub samples: Vec<(u64, String)>,
}

impl Stats {
    pub fn add(&mut self, k: &'static str, n: u64) {
        *self.counters.entry(k).or_insert(0) += n;
    }
    pub fn max(&mut self, k: &'static str, v: u64) {
        let e = self.maxima.entry(k).or_insert(0);
        if v > *e {
            *e = v;
        }
    }
    pub fn class(&mut self, k: &'static str, c: u64) {
        self.classes.entry(k).or_default().insert(c);
    }
    pub fn sample(&mut self, idx: u64, s: String) {
        if self.samples.len() < 3 || idx < self.samples.last().unwrap().0 {
            self.samples.push((idx, s));
            self.samples.sort();
            self.samples.dedup_by(|a, b| a.0 == b.0);
            self.samples.truncate(3);
        }
    }
    pub fn merge(mut self, o: Stats) -> Stats {
        self.roots += o.roots;
        self.states += o.states;
        self.transitions += o.transitions;
        self.digest = self.digest.wrapping_add(o.digest);
        for (k, v) in o.counters {
            *self.counters.entry(k).or_insert(0) += v;
        }
        for (k, v) in o.classes {
            self.classes.entry(k).or_default().extend(v);
        }
        for (k, v) in o.maxima {
            self.max(k, v);
        }
        for (i, s) in o.samples {
            self.sample(i, s);
        }
        self
    }
    pub fn counter(&self, k: &str) -> u64 {
        self.counters.get(k).copied().unwrap_or(0)
    }
    pub fn to_json(&self) -> Value {
        json!({
            "roots": self.roots, "states": self.states, "transitions": self.transitions,
            "digest": format!("{:016x}", self.digest),
            "counters": self.counters,
            "classes_observed": self.classes.iter().map(|(k, v)| (k.to_string(), json!(v.len()))).collect::<BTreeMap<_, _>>(),
        })
    }
}

/// A family's (or explorer run's) result, for the per-family table in the evidence.
#[derive(Clone, Debug)]
pub struct FamilyResult {
    pub explorer: String,
    pub family: String,
    pub complete: bool,
    pub note: String,
    pub stats: Stats,
    pub wall_s: f64,
}

pub struct Evidence {
    pub property: String,
    pub tier: String,
    pub families: Vec<FamilyResult>,
    pub nontrivial_rule: String,
    pub nontrivial_keys: Vec<&'static str>,
    pub assumptions: Vec<String>,
    pub extra: BTreeMap<String, Value>,
    pub known_findings: Vec<String>,
}

pub struct KnownFinding {
    pub property: String,
    pub status: String,
    pub signature_contains: String,
    pub description: String,
}

pub fn load_known_findings() -> Vec<KnownFinding> {
    let path = crate::verif_dir().join("known_findings.json");
    let text = match std::fs::read_to_string(&path) {
        Ok(t) => t,
        Err(_) => return vec![],
    };
    let v: Value = match serde_json::from_str(&text) {
        Ok(v) => v,
        Err(e) => {
            eprintln!("mc: known_findings.json unreadable: {}", e);
            std::process::exit(2);
        }
    };
    let mut out = vec![];
    if let Some(a) = v.get("findings").and_then(|x| x.as_array()) {
        for f in a {
            let g = |k: &str| f.get(k).and_then(|x| x.as_str()).unwrap_or("").to_string();
            out.push(KnownFinding { property: g("property"), status: g("status"), signature_contains: g("signature_contains"), description: g("description") });
        }
    }
    out
}

impl Evidence {
    pub fn shallow(&self) -> Evidence {
        Evidence {
            property: self.property.clone(),
            tier: self.tier.clone(),
            families: self.families.clone(),
            nontrivial_rule: self.nontrivial_rule.clone(),
            nontrivial_keys: self.nontrivial_keys.clone(),
            assumptions: self.assumptions.clone(),
            extra: self.extra.clone(),
            known_findings: self.known_findings.clone(),
        }
    }
    pub fn new(property: &str, tier: &str) -> Self {
        Evidence {
            property: property.to_string(),
            tier: tier.to_string(),
            families: vec![],
            nontrivial_rule: String::new(),
            nontrivial_keys: vec![],
            assumptions: vec![],
            extra: BTreeMap::new(),
            known_findings: vec![],
        }
    }
    pub fn total(&self) -> Stats {
        let mut t = Stats::default();
        for f in &self.families {
            t = t.merge(f.stats.clone());
        }
        t
    }
    pub fn write(&self, wall_s: f64, violations: usize) {
        let total = self.total();
        let nontrivial: u64 = self.nontrivial_keys.iter().map(|k| total.counter(k)).sum();
        let mut samples: Vec<Value> = vec![];
        for f in &self.families {
            for (_, s) in f.stats.samples.iter().take(2) {
                if samples.len() < 8 {
                    samples.push(json!({"explorer": f.explorer, "family": f.family, "case": s}));
                }
            }
        }
        if samples.is_empty() {
            samples.push(json!("(no sample recorded)"));
        }
        let exhaustive = self.families.iter().all(|f| f.complete);
        let fams: Vec<Value> = self
            .families
            .iter()
            .map(|f| {
                json!({"explorer": f.explorer, "family": f.family, "complete": f.complete, "note": f.note,
                       "wall_s": (f.wall_s * 1000.0).round() / 1000.0, "stats": f.stats.to_json()})
            })
            .collect();
        let seed: i64 = std::env::var("VERIF_SEED").ok().and_then(|s| s.parse().ok()).unwrap_or(0);
        let mut cov = json!({
            "states": total.states.max(1),
            "transitions": total.transitions.max(1),
            "traces_validated_against_impl": total.transitions,
            "evaluations": total.states.max(1),
            "distinct_nontrivial": nontrivial,
            "rule": self.nontrivial_rule,
            "samples": samples,
            "exhaustive": exhaustive,
            "exhaustive_meaning": "every family listed under 'families' with complete=true was enumerated completely (every root of the stated finite family, every offered action from every state, to the stated bound); nothing is sampled",
            "families": fams,
            "digest": format!("{:016x}", total.digest),
            "counters": total.counters,
            "maxima": total.maxima,
            "classes_observed": total.classes.iter().map(|(k, v)| (k.to_string(), if v.len() <= 40 { json!({"count": v.len(), "values": v}) } else { json!({"count": v.len()}) })).collect::<BTreeMap<_, _>>(),
            "known_findings_printed": self.known_findings,
        });
        for (k, v) in &self.extra {
            cov[k] = v.clone();
        }
        let ev = json!({
            "property_id": self.property,
            "tier": self.tier,
            "seed": seed,
            "level": "model_checking",
            "coverage": cov,
            "assumptions": self.assumptions,
            "wall_s": (wall_s * 1000.0).round() / 1000.0,
            "violations": violations,
        });
        let dir = crate::verif_dir().join("evidence");
        std::fs::create_dir_all(&dir).ok();
        let path = dir.join(format!("{}.json", self.property));
        std::fs::write(&path, serde_json::to_string_pretty(&ev).unwrap()).expect("write evidence");
    }
}

/// Writes violation artefacts and prints the VIOLATION / KNOWN-FINDING lines.  Returns the exit code.
pub fn finish(ev: &Evidence, wall_s: f64) -> i32 {
    let mut viols = VIOLATIONS.lock().unwrap().clone();
    viols.sort_by(|a, b| (a.root_idx, a.actions.len()).cmp(&(b.root_idx, b.actions.len())));
    // stable: families in run order first
    let order: Vec<String> = ev.families.iter().map(|f| f.family.clone()).collect();
    viols.sort_by_key(|v| order.iter().position(|f| *f == v.family).unwrap_or(usize::MAX));
    // known findings (committed file, never written at run time)
    let known = load_known_findings();
    let mut printed: Vec<String> = vec![];
    let mut unknown: Vec<Violation> = vec![];
    for v in viols.into_iter() {
        let sig = signature(&v);
        match known.iter().find(|k| k.status == "open" && k.property == v.property && sig.contains(&k.signature_contains)) {
            Some(k) => {
                let line = format!("KNOWN-FINDING: property={} {} (witness: {})", v.property, k.description, v.root.replace('\n', "\\n"));
                if !printed.iter().any(|l| l.starts_with(&format!("KNOWN-FINDING: property={} {}", v.property, k.description))) {
                    println!("{}", line);
                    printed.push(line);
                }
            }
            None => unknown.push(v),
        }
    }
    let viols = unknown;
    let n = viols.len();
    let mut ev2 = Evidence { known_findings: printed, ..ev.shallow() };
    ev2.extra.insert("violations_reported_by_explorers_including_known".into(), json!(violation_count()));
    ev2.write(wall_s, n);
    if viols.is_empty() {
        return 0;
    }
    let dir = crate::verif_dir().join("violations");
    std::fs::create_dir_all(&dir).ok();
    for (i, v) in viols.iter().take(MAX_CLASSES * MAX_PER_CLASS).enumerate() {
        let path = dir.join(format!("{}-{}.json", v.property, i));
        std::fs::write(&path, serde_json::to_string_pretty(&v.to_json()).unwrap()).expect("write violation");
        if i == 0 {
            println!("VIOLATION property={} replay={}", v.property, path.display());
            println!("  what: {}\n  observed: {}\n  expected: {}\n  root:\n{}\n  actions: {}", v.what, v.observed, v.expected, v.root, v.actions.join(" "));
        } else {
            println!("  (further violation recorded: {} — {})", path.display(), v.what);
        }
    }
    1
}
