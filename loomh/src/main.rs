//! C18 stage B: loom bodies run against the instrumented copy of the engine (std::sync -> loom::sync).
//!   loomh run <B1|B2|B3|B4|B5|B6> <threads> <preemption_bound|none>   (child mode: one body, exits 0 / 101, prints JSON)
use arimaa_engine_step::*;
use loom::sync::Arc as LArc;
use loom::sync::Mutex as LMutex;
use std::sync::atomic::{AtomicU64, Ordering};

static EXECUTIONS: AtomicU64 = AtomicU64::new(0);
static ENGINE_CALLS: AtomicU64 = AtomicU64::new(0);

type Raw = [u64; 8];
fn raw(pb: &PieceBoardState) -> Raw {
    [pb.p1_pieces, pb.all_pieces, pb.elephants, pb.camels, pb.horses, pb.dogs, pb.cats, pb.rabbits]
}

fn mix(h: u64, x: u64) -> u64 {
    (h.rotate_left(7) ^ x).wrapping_mul(0x9E3779B97F4A7C15)
}

/// Fingerprint of everything observable about a state.
fn fp(gs: &GameState) -> u64 {
    let mut h = 0u64;
    for x in raw(gs.piece_board()) {
        h = mix(h, x);
    }
    h = mix(h, gs.is_p1_turn_to_move() as u64);
    h = mix(h, gs.move_number() as u64);
    h = mix(h, gs.transposition_hash());
    if let Some(pp) = gs.as_play_phase() {
        h = mix(h, pp.step() as u64);
        h = mix(h, pp.piece_trapped_this_turn() as u64);
        h = mix(h, match pp.push_pull_state() {
            PushPullState::None => 0,
            PushPullState::PossiblePull(s, p) => 1000 + s.index() as u64 * 8 + p as u64,
            PushPullState::MustCompletePush(s, p) => 2000 + s.index() as u64 * 8 + p as u64,
        });
        for b in pp.previous_piece_boards() {
            for x in raw(b.piece_board()) {
                h = mix(h, x);
            }
        }
        h = mix(h, pp.hash_history().len() as u64);
        for z in pp.hash_history().iter() {
            h = mix(h, z.board_state_hash());
        }
    }
    h
}

fn fp_actions(a: &[Action]) -> u64 {
    let mut h = 7u64;
    for x in a {
        let code = match x {
            Action::Pass => 1,
            Action::Place(p) => 10 + *p as u64,
            Action::Move(s, d) => 100 + s.index() as u64 * 4 + *d as u64,
        };
        h = mix(h, code);
    }
    h
}

fn mv(sq: u8, d: Direction) -> Action {
    Action::Move(Square::from_index(sq), d)
}

/// Root: Gold E d4 (35), R a1 (56); Silver c e5 (28), r h8 (7).  Built with the public constructors (no regex under loom).
fn root() -> GameState {
    let bit = |i: u8| 1u64 << i;
    let pb = PieceBoard::new(bit(35) | bit(56), bit(35), 0, 0, 0, bit(28), bit(56) | bit(7));
    let hash = Zobrist::from_piece_board(pb.piece_board(), true, 0);
    GameState::new(true, 2, Phase::PlayPhase(PlayPhase::initial(hash, List::new().append(hash))), pb, hash)
}

fn act(s: &GameState, a: Action) -> GameState {
    assert!(s.valid_actions().contains(&a), "planned action {} not offered", a);
    ENGINE_CALLS.fetch_add(2, Ordering::Relaxed);
    s.take_action(&a)
}

/// Plays `actions` from the root and returns every state along the path.  With `check` each action is asserted to be
/// offered (this QUERIES the states); without it the states are produced by take_action alone, so that the threads of
/// a body are the first ever to query them (lazily initialised caches must not be warmed by the harness).
fn play(actions: &[Action], check: bool) -> Vec<GameState> {
    let mut v = vec![root()];
    for a in actions {
        let s = v.last().unwrap();
        let t = if check { act(s, *a) } else { ENGINE_CALLS.fetch_add(1, Ordering::Relaxed); s.take_action(a) };
        v.push(t);
    }
    v
}

fn history_actions() -> Vec<Action> {
    vec![
        mv(35, Direction::Left), // Gold E d4 -> c4
        Action::Pass,
        mv(28, Direction::Left), // Silver c e5 -> d5
        Action::Pass,
        mv(34, Direction::Up), // Gold E c4 -> c5 (freezes the cat)
        Action::Pass,
        mv(7, Direction::Down), // Silver r h8 -> h7
        Action::Pass,
    ]
}

/// A state with a 5-entry history: four turns played from the root.  Gold to move at step 0 with E c5 next to the
/// silver cat d5, so pushes (and, after an elephant step, pulls) are on offer.
fn history_state() -> GameState {
    let s = root();
    let s = act(&s, mv(35, Direction::Left)); // Gold E d4 -> c4
    let s = act(&s, Action::Pass);
    let s = act(&s, mv(28, Direction::Left)); // Silver c e5 -> d5
    let s = act(&s, Action::Pass);
    let s = act(&s, mv(34, Direction::Up)); // Gold E c4 -> c5 (freezes the cat)
    let s = act(&s, Action::Pass);
    let s = act(&s, mv(7, Direction::Down)); // Silver r h8 -> h7
    act(&s, Action::Pass)
}

/// Everything one expander does with a shared state; returns the observation vector.
fn expand(s: &GameState, which: usize) -> Vec<u64> {
    let mut obs = vec![];
    let va = s.valid_actions();
    let nr = s.valid_actions_no_rep();
    ENGINE_CALLS.fetch_add(3, Ordering::Relaxed);
    obs.push(fp_actions(&va));
    obs.push(fp_actions(&nr));
    obs.push(match s.is_terminal() {
        None => 0,
        Some(Terminal::GoldWin) => 1,
        Some(Terminal::SilverWin) => 2,
    });
    // a few actions, chosen by position in the list so that different threads overlap and differ
    let picks: Vec<usize> = match which % 3 {
        0 => vec![0, va.len() - 1],
        1 => vec![va.len() - 1, 1 % va.len()],
        _ => vec![1 % va.len(), 0],
    };
    for i in picks {
        let t = s.take_action(&va[i]);
        ENGINE_CALLS.fetch_add(1, Ordering::Relaxed);
        obs.push(fp(&t));
        let c = t.clone();
        obs.push(fp(&c));
        drop(t);
        obs.push(fp_actions(&c.valid_actions()));
        drop(c);
    }
    obs.push(fp(s));
    obs
}

/// B1: k threads expand three shared states of one turn - step 0 (pushes on offer), step 1 (a pull on offer, pass
/// offered) and step 3 (every step ends the turn and appends to the shared history) - while the main thread drops
/// its own handles.  The expected observations come from a second, separately built copy of the same states.
fn b1(threads: usize) {
    let mut acts = history_actions();
    acts.extend([mv(26, Direction::Left), mv(27, Direction::Left), mv(25, Direction::Up)]); // E c5-b5, pull c d5-c5, E b5-b6
    let mut fresh = play(&acts, false);
    let s3 = fresh.pop().unwrap();
    let _s2 = fresh.pop().unwrap();
    let s1 = fresh.pop().unwrap();
    let h = fresh.pop().unwrap();
    drop(fresh);
    drop(_s2);
    let a0 = LArc::new(h);
    let a1 = LArc::new(s1);
    let a3 = LArc::new(s3);
    let mut hs = vec![];
    for i in 0..threads {
        let (a0, a1, a3) = (a0.clone(), a1.clone(), a3.clone());
        hs.push(loom::thread::spawn(move || {
            let mut o = expand(&a0, i + 2);
            drop(a0);
            o.extend(expand(&a1, i));
            drop(a1);
            o.extend(expand(&a3, i + 1));
            o
        }));
    }
    drop(a1);
    drop(a3);
    drop(a0);
    let got: Vec<Vec<u64>> = hs.into_iter().map(|h| h.join().unwrap()).collect();
    // The sequential reference is computed AFTER the threads: they were the first to query anything in this execution
    // (loom re-creates lazily initialised statics for every execution, so each interleaving is a cold start).
    let reference = play(&acts, true);
    let n = reference.len();
    let (rh, rs1, rs3) = (&reference[n - 4], &reference[n - 3], &reference[n - 1]);
    for (i, g) in got.iter().enumerate() {
        let mut o = expand(rh, i + 2);
        o.extend(expand(rs1, i));
        o.extend(expand(rs3, i + 1));
        assert_eq!(*g, o, "B1: thread {} observed results that differ from sequential expansion", i);
    }
    drop(reference);
}

/// B2: threads take different actions from a shared state, play two more turns each on the structurally shared
/// history tail, and drop everything in different orders.
fn b2(threads: usize) {
    let h = history_state();
    let seq = |i: usize, s: &GameState| -> Vec<u64> {
        let va = s.valid_actions();
        let a = va[i % va.len()];
        let t1 = s.take_action(&a);
        let t2 = t1.take_action(&Action::Pass);
        let vb = t2.valid_actions();
        let t3 = t2.take_action(&vb[(i * 3) % vb.len()]);
        let t4 = t3.take_action(&Action::Pass);
        ENGINE_CALLS.fetch_add(6, Ordering::Relaxed);
        let o = vec![fp(&t1), fp(&t2), fp(&t3), fp(&t4), fp_actions(&t4.valid_actions())];
        if i % 2 == 0 {
            drop(t4);
            drop(t1);
            drop(t3);
            drop(t2);
        } else {
            drop(t1);
            drop(t2);
            drop(t3);
            drop(t4);
        }
        o
    };
    let expected: Vec<Vec<u64>> = (0..threads).map(|i| seq(i, &h)).collect();
    drop(h);
    let shared = LArc::new(play(&history_actions(), false).pop().unwrap());
    let mut hs = vec![];
    for i in 0..threads {
        let s = shared.clone();
        hs.push(loom::thread::spawn(move || {
            let o = seq(i, &s);
            drop(s);
            o
        }));
    }
    drop(shared);
    for (i, h) in hs.into_iter().enumerate() {
        assert_eq!(h.join().unwrap(), expected[i], "B2: thread {} observed results that differ from sequential play", i);
    }
}

/// B3: a state built in one thread is handed to another through a mutex and expanded there while its parent and a
/// sibling are still alive (and being dropped) in the first.
fn b3(threads: usize) {
    let rh = history_state();
    let rchild = act(&rh, mv(26, Direction::Left));
    let expected = expand(&rchild, 0);
    let expected_parent = fp(&rh);
    drop(rchild);
    drop(rh);
    let mut acts = history_actions();
    acts.push(mv(26, Direction::Left));
    let mut fresh = play(&acts, false);
    let child = fresh.pop().unwrap();
    let h = fresh.pop().unwrap();
    drop(fresh);
    let slot: LArc<LMutex<Option<GameState>>> = LArc::new(LMutex::new(None));
    let mut hs = vec![];
    for _ in 0..threads.saturating_sub(1).max(1) {
        let slot = slot.clone();
        hs.push(loom::thread::spawn(move || {
            let got = slot.lock().unwrap().take();
            match got {
                Some(s) => {
                    let o = expand(&s, 0);
                    drop(s);
                    Some(o)
                }
                None => None,
            }
        }));
    }
    let sibling = child.clone();
    *slot.lock().unwrap() = Some(child);
    let o_parent = fp(&h);
    drop(h);
    let o_sib = expand(&sibling, 0);
    drop(sibling);
    assert_eq!(o_parent, expected_parent, "B3: parent changed while its child was expanded elsewhere");
    assert_eq!(o_sib, expected, "B3: sibling observed different results");
    for h in hs {
        if let Some(o) = h.join().unwrap() {
            assert_eq!(o, expected, "B3: receiving thread observed different results");
        }
    }
    let left = slot.lock().unwrap().take();
    drop(left);
}

/// B4: two (or more) owners of lists that share a long tail drop them concurrently (the iterative Drop races on
/// the shared nodes); a third owner keeps the tail alive in half of the schedules by dropping last.
fn b4(threads: usize) {
    let mut tail: List<u64> = List::new();
    for i in 0..4u64 {
        tail = tail.append(i);
    }
    let lists: Vec<List<u64>> = (0..threads as u64).map(|i| tail.append(100 + i).append(200 + i)).collect();
    let expect: Vec<Vec<u64>> = lists.iter().map(|l| l.iter().copied().collect()).collect();
    let mut hs = vec![];
    for (i, l) in lists.into_iter().enumerate() {
        let e = expect[i].clone();
        hs.push(loom::thread::spawn(move || {
            let got: Vec<u64> = l.iter().copied().collect();
            assert_eq!(got, e, "B4: list contents changed");
            let t = l.tail();
            drop(l);
            let n = t.len();
            drop(t);
            n
        }));
    }
    drop(tail);
    for h in hs {
        assert_eq!(h.join().unwrap(), 5, "B4: tail length");
    }
}

/// B5: k threads expand a shared mid-turn state in which passing would be the THIRD occurrence of a position
/// (pass withheld), reached by eight shuffling turns, plus the turn-start state before it.  The shared states have
/// never been queried before the threads start, so any lazily computed / cached repetition answer that is published
/// non-atomically shows up as an offered pass.
fn b5(threads: usize) {
    // Gold E d4 <-> c4, Silver r h8 <-> g8, twice round: the root position then has occurred twice
    let mut acts: Vec<Action> = vec![];
    for round in 0..2 {
        acts.extend([mv(35, Direction::Left), Action::Pass, mv(7, Direction::Left), Action::Pass, mv(34, Direction::Right), Action::Pass]);
        if round == 0 {
            acts.extend([mv(6, Direction::Right), Action::Pass]);
        }
    }
    acts.push(mv(6, Direction::Right)); // Silver r g8 -> h8 : passing now would restore the root position a third time
    let mut fresh = play(&acts, false);
    let t1 = fresh.pop().unwrap();
    let t0 = fresh.pop().unwrap();
    drop(fresh);
    let a1 = LArc::new(t1);
    let a0 = LArc::new(t0);
    let mut hs = vec![];
    for i in 0..threads {
        let (a0, a1) = (a0.clone(), a1.clone());
        hs.push(loom::thread::spawn(move || {
            let mut o = vec![a1.can_pass(true) as u64];
            o.extend(expand(&a1, i));
            drop(a1);
            o.extend(expand(&a0, i + 1));
            o
        }));
    }
    drop(a0);
    drop(a1);
    let got: Vec<Vec<u64>> = hs.into_iter().map(|h| h.join().unwrap()).collect();
    // reference after the threads (see B1)
    let reference = play(&acts, true);
    let n = reference.len();
    let (rt0, rt1) = (&reference[n - 2], &reference[n - 1]);
    assert!(!rt1.valid_actions().contains(&Action::Pass), "B5 set-up: the pass should be withheld as a third repetition");
    assert!(rt1.valid_actions_no_rep().contains(&Action::Pass));
    for (i, g) in got.iter().enumerate() {
        let mut o = vec![rt1.can_pass(true) as u64];
        o.extend(expand(rt1, i));
        o.extend(expand(rt0, i + 1));
        assert_eq!(*g, o, "B5: thread {} observed results that differ from sequential expansion (repetition-sensitive state)", i);
    }
    drop(reference);
}

// ---------- B6: stack depth of concurrent drops (C20 under concurrency) ----------
loom::thread_local! {
    static DROP_BASE: std::cell::Cell<usize> = std::cell::Cell::new(0);
}
static MAX_DROP_DEPTH: AtomicU64 = AtomicU64::new(0);

/// List element whose Drop records how far below the start of the enclosing drop call the stack has grown.
struct Probe(#[allow(dead_code)] u64);
impl Drop for Probe {
    fn drop(&mut self) {
        let marker = 0u8;
        let here = &marker as *const u8 as usize;
        let base = DROP_BASE.with(|b| b.get());
        if base != 0 {
            let depth = base.abs_diff(here) as u64;
            MAX_DROP_DEPTH.fetch_max(depth, Ordering::Relaxed);
        }
    }
}

#[inline(never)]
fn drop_measured<T>(x: T) {
    let marker = 0u8;
    DROP_BASE.with(|b| b.set(&marker as *const u8 as usize));
    drop(x);
    DROP_BASE.with(|b| b.set(0));
}

pub const B6_TAIL: u64 = 300;
/// a recursive drop of B6_TAIL nodes needs far more than this; an iterative one a few hundred bytes
pub const B6_DEPTH_LIMIT: u64 = 4096;

/// B6: k owners of lists that share a 300-node tail drop them concurrently; whichever thread ends up freeing the tail
/// must do so without stack growth proportional to its length, under EVERY interleaving of the reference-count
/// operations (a drop loop that gives up when two owners race - e.g. Arc::try_unwrap failing on both sides - falls
/// back to the recursive drop glue exactly in those schedules).
fn b6(threads: usize) {
    let mut tail: List<Probe> = List::new();
    for i in 0..B6_TAIL {
        tail = tail.append(Probe(i));
    }
    let owners: Vec<List<Probe>> = (0..threads).map(|_| tail.clone()).collect();
    drop_measured(tail); // owners keep it alive: nothing is freed here
    let mut hs = vec![];
    for l in owners.into_iter() {
        hs.push(loom::thread::spawn(move || {
            let n = l.len();
            drop_measured(l);
            n
        }));
    }
    for h in hs {
        assert_eq!(h.join().unwrap() as u64, B6_TAIL);
    }
    let d = MAX_DROP_DEPTH.load(Ordering::Relaxed);
    assert!(d <= B6_DEPTH_LIMIT, "B6: freeing a shared {}-node history used {} bytes of stack below the drop call (limit {}): stack use grows with the history length", B6_TAIL, d, B6_DEPTH_LIMIT);
}

fn main() {
    let a: Vec<String> = std::env::args().collect();
    if a.len() != 5 || a[1] != "run" {
        eprintln!("usage: loomh run <B1|B2|B3|B4|B5|B6> <threads> <preemption_bound|none>");
        std::process::exit(2);
    }
    let body = a[2].clone();
    let threads: usize = a[3].parse().unwrap();
    let bound: Option<usize> = if a[4] == "none" { None } else { Some(a[4].parse().unwrap()) };
    let mut b = loom::model::Builder::new();
    b.preemption_bound = bound;
    b.max_branches = 100_000;
    let t0 = std::time::Instant::now();
    let body2 = body.clone();
    b.check(move || {
        EXECUTIONS.fetch_add(1, Ordering::Relaxed);
        match body2.as_str() {
            "B1" => b1(threads),
            "B2" => b2(threads),
            "B3" => b3(threads),
            "B4" => b4(threads),
            "B5" => b5(threads),
            "B6" => b6(threads),
            _ => panic!("unknown body"),
        }
    });
    println!(
        "{}",
        serde_json::json!({"body": body, "threads": threads, "preemption_bound": bound, "executions": EXECUTIONS.load(Ordering::Relaxed),
            "max_drop_depth_bytes": MAX_DROP_DEPTH.load(Ordering::Relaxed),
            "engine_calls": ENGINE_CALLS.load(Ordering::Relaxed), "wall_s": t0.elapsed().as_secs_f64()})
    );
}
