#!/bin/bash
# scripts/run_all.sh [quick|thorough] — runs every registered check once, prints exit code and wall time.
cd "$(dirname "$0")/.."
tier="${1:-quick}"
fail=0
for id in $(python3 -c "import json;print(' '.join(c['property_id'] for c in json.load(open('MANIFEST.json'))['checks']))"); do
  s=$(date +%s.%N)
  out=$(./check $id $tier 2>&1); rc=$?
  e=$(date +%s.%N)
  printf "%s rc=%d %.1fs  %s\n" $id $rc $(echo "$e - $s" | bc) "$(echo "$out" | grep -E '^(mc|C18|VIOLATION|KNOWN|MACHINERY|CAPPED)' | tr '\n' ' ' | cut -c1-200)"
  [ $rc -ne 0 ] && fail=1
done
exit $fail
