#!/usr/bin/env python3
"""Generates /verif/MANIFEST.json from the table below (kept in one place so that it stays valid)."""
import json, os
V = os.path.dirname(os.path.dirname(os.path.abspath(__file__)))

CHECKS = {
 # id: (technique, level text, level note, design_ref)
 "C01": ("explicit-state exploration of the real step generator (all boards of bounded families x all step prefixes) against an independent rules model",
         "Every board with <=2 pieces, every 3-piece board inside 3x3 windows, every {R,C,E,r,c,e} filling of 2x2 windows and curated full boards, both sides, every step prefix of the turn: the engine's rule-only action list is compared as a set with the legal steps of a mailbox reference model that tracks the set of push/pull parses. Exhaustive within those families; material beyond them is not covered.",
         "Trusted: the reference model's reading of the Arimaa rules (cross-checked by C11, which needs no model, and by mutants in both directions); square/direction naming (pinned by C16).", "DESIGN.md §2.1, §3.1, §4 C01"),
 "C02": ("explicit-state exploration; every transition of the real take_action compared with the mailbox model's step+capture result on all 8 raw bitboards",
         "Every offered action from every state of the E1 families is applied with the real take_action and the resulting 8 raw bitboards are compared with 'move one piece one square, then remove exactly the unsupported trap pieces' computed on a mailbox board; passes must leave the board unchanged. Families containing every <=2-piece board are closed under play, so for that material the statement holds along arbitrarily long games.",
         "Trusted: mailbox model of step/capture (40 lines).", "DESIGN.md §4 C02"),
 "C03": ("explicit-state exploration; explorer's own side/step/move counters compared on every transition, several starting move numbers",
         "Every transition of E1 (all families) and of E2's whole games is compared with the explorer's own counters: side, step 0..3, move number (+1 exactly when Silver's turn ends), nothing pending and a fresh per-turn record at every turn start; roots are also started from move numbers 1, 3, 50, 1e6 and 2^32+1.",
         "Move numbers near usize::MAX are outside the domain.", "DESIGN.md §4 C03"),
 "C04": ("explicit-state exploration; five-step official cascade evaluated by the reference model on every root and every reached turn start",
         "is_terminal() at every root of the families (every goal square for both colours, alone and in pairs/triples) and at every turn-start state reached by play is compared with the reference cascade (goal of previous mover, goal of mover, elimination of mover, elimination of previous mover, immobilisation); every mid-turn state may report a result only when nothing is offered; the 2^5 condition vectors observed are tabulated; family FM (material ladder) evaluates the cascade on three full boards with every number of rabbits and 0/1/2/8 officers removed per side.",
         "Trusted: reference model's legal-step generator for 'no legal step'.", "DESIGN.md §4 C04"),
 "C05": ("explicit-state exploration of whole confined games to fix-point (all histories the configuration admits) against exact, never-forgotten board histories",
         "E2 explores every game of each confined configuration breadth-first until no new state appears (or to a stated turn bound), following every offered action inside the domains; at every turn-ending transition the new board must differ from the explorer's snapshot of the turn-start board and (board, side) may have occurred at most once before in the explorer's exact list of turn-start positions, which is never cleared at captures. E1 adds the 'board unchanged' half on every family.",
         "Window/material bound of the confined configurations; long histories (E8 lassos up to 450 entries, E9 Gray-code shuffles on the full-board seeds up to 33 / 65 entries, padded configurations) are scripted paths on which every offered action of every state is checked, not full state spaces; positions that recur only with the opponent's help are covered by the scripted drag-back games; partial-hash comparison by the collision games (pairs of positions agreeing on a 32-bit window of the engine's public hash, enumerated over 657,720 arrangements); full 64-bit collisions between boards outside the explored set are not addressed.", "DESIGN.md §2.2, §4 C05"),
 "C06": ("explicit-state exploration (E2 games to fix-point, E1 families); offered list compared, order preserved, with the rule-only list filtered by the exact repetition rule",
         "In every state of E2 and E1: valid_actions() must equal valid_actions_no_rep() minus exactly the turn-ending actions whose resulting board equals the turn-start board or would be the third turn-start occurrence of (board, side) in the explorer's exact never-forgotten history; same order; nothing else withheld. States after captures (where the engine forgets its history and the explorer does not) decide the 'forgetting never changes the offer' clause.",
         "Window/material bound of the confined configurations; the long / dense histories of E8, E9, E10 (distance sweep, drag-back games, 32-bit-window collision games) and the padded configurations are scripted paths on which every offered action of every state is checked.", "DESIGN.md §4 C06, §8.2"),
 "C07": ("explicit-state exploration of E1 families plus confined whole games to fix-point (E2); summary queries compared with the action lists in every state",
         "In every state of E1, E2 and the setup trie: no result => non-empty offered list; mid-turn result <=> empty list and it is a loss for the mover; has_move, can_pass(true/false) agree with the lists. E2's confined games reach the rare states where everything is withheld by repetition (counted in evidence).",
         "Confined-game material/window bound for the repetition-dependent states (incl. frozen armies padded to 12 pieces, the 18-piece dense corner game, and the drag-back games in which a rabbit's forward step is itself a third repetition).", "DESIGN.md §4 C07"),
 "C08": ("explicit-state exploration; incremental hash compared with from-scratch hash on every state, feature->hash map single-valued across all paths",
         "On every state of E1/E2/E3: transposition_hash equals the from-scratch Zobrist of (board, side, step, status); per root/configuration the map features->hash is single valued over all paths; at every turn end the newest history entry is the from-scratch hash and every entry belongs to a played position; equal (board, side, step) compare and hash equal; parse(print(s)) link on turn-start states of F1, seeds and setup leaves.",
         "Zobrist::from_piece_board is the from-scratch definition (its own injectivity is C17).", "DESIGN.md §4 C08"),
 "C09": ("complete enumeration of the placement trie (Gold's trie completely; Silver's trie completely after each of several Gold arrangements) on the real engine",
         "Every placement prefix of Gold (144 M nodes) and, after each of 2 (thorough 24) complete Gold arrangements, every placement prefix of Silver: offered placements = kinds with remaining complement; each placement sets exactly the next home square to (mover, kind) and changes nothing else in the 8 raw fields; side flips after Gold's 16th; after Silver's 16th play starts with Gold, move 2, step 0, nothing pending, history = [from-scratch hash]; query order: the 17 prefix states of every Gold order are also produced first and asked afterwards (last-to-first, first-to-last, siblings before their parent).",
         "The full 64.8M x 64.8M product is out of reach; Silver's tries are complete for the listed Gold arrangements only.", "DESIGN.md §2.3, §4 C09"),
 "C10": ("explicit-state exploration; view-agreement invariants on every state, printed diagram re-read by an independent fixed-column reader",
         "Every state of E1/E2/E3: per-type boards disjoint, union = all_pieces, p1 subset; every accessor agrees with the raw fields on all 64 squares; printed diagram (read by the harness's own reader) shows the same kind on every square; bit i = file i mod 8, rank 8 - i div 8; counts within the complement; after any action nothing unsupported on a trap.",
         "Diagram comparison is done once per distinct board per worker.", "DESIGN.md §4 C10"),
 "C11": ("explicit-state exploration in 4-fold lock-step: every state compared with its images under file mirror, colour swap + rank flip, and both (no reference model)",
         "E1 families (every <=2-piece board, 2x2 fillings, seeds; thorough: 3-piece windows) for one full turn and E2 confined games to fix-point are run in lock-step with their three images: transformed offered and rule-only action sets, results, capture previews and resulting boards must coincide at every step, including which actions the repetition rules withhold; all 129 seed boards are compared shallowly (states after 0-2 steps) in the quick tier; E10 distance and drag-back scripts in lock-step.",
         "Play phase only (setup order is not mirror symmetric by definition). Families closed under both symmetries are run with one primary per orbit {x, m(x), s(x), ms(x)} - an exact reduction, the lock-step comparison is symmetric; quick: F2 with kinds RCDErcde, hand-made seeds as written.", "DESIGN.md §4 C11"),
 "C12": ("explicit-state exploration; status after every step compared with a transcription of the statement; pending-push list compared with the model",
         "After every step of E1/E2 the reported push/pull status is compared with the deterministic reading of the statement computed from the previous status and the step; at every turn start it is None; while a push is pending the rule-only list must equal the completing steps of unfrozen strictly stronger friends (non-empty).",
         "Trusted: mailbox freezing/strength helpers.", "DESIGN.md §4 C12"),
 "C13": ("explicit-state exploration; capture preview compared with the board difference of the real transition for every (state, offered action)",
         "For every state x offered action of E1/E2 (and placements in E3) trapped_animal_for_action is compared with the pieces that take_action really removes (square, type, owner); never more than one; all trap x colour x cause classes must be observed.",
         "none beyond board accessors (C10).", "DESIGN.md §4 C13"),
 "C14": ("explicit-state exploration; explorer's own stack of board snapshots compared with piece_board_for_step / previous_piece_boards",
         "Every state of E1/E2: piece_board_for_step(i) and previous_piece_boards()[i] equal the explorer's snapshot after i steps for all 0<=i<=k; at turn start only step 0.",
         "none.", "DESIGN.md §4 C14"),
 "C15": ("exhaustive enumeration of input strings (bounded length over an alphabet; a diagram grammar) and print/parse round trip on every visited state",
         "GameState::from_str is run under catch_unwind (overflow checks on) on every string of a diagram grammar (headers incl. oversized / non-ASCII move numbers x 0..12 rows x 0..12 columns x fillings) and on every string up to length 5 (thorough 6) over an 11-symbol alphabet; every state of F1, every F2 root, and seeds are printed and parsed back (board, side, move number, print, start-of-turn, hash); after every rejected text a fixed diagram is parsed on the same thread and compared with the position built without the parser (canary).",
         "Strings outside the grammar/alphabet are not covered.", "DESIGN.md §4 C15"),
 "C16": ("exhaustive enumeration of all strings up to length 4 (thorough 5) over a 45-symbol alphabet through the four parsers; all values round-tripped",
         "All strings of length 0..4 over an alphabet built from the parsers' decision points (incl. 2/3/4-byte UTF-8, characters whose u8 truncation is a file letter, non-ASCII digits) through Action/Square/Piece/Direction::from_str under catch_unwind with overflow checks: never panics, accepts only printed forms (upper-case piece letters allowed); all 263 actions, 64 squares, 6 pieces, 4 directions round-trip; square/index/bit conversions mutually inverse; alias sweep: every printed token with one character replaced by every code point equal to it modulo 128 / 256 up to U+10FFFF.",
         "Longer strings only fail the length test in the parsers (read, not enumerated).", "DESIGN.md §4 C16"),
 "C17": ("complete enumeration of the finite hashed-feature domain on constructed states, pairwise comparison",
         "Every square x every pair of the 13 contents, every kind x every pair of squares, both sides, all step pairs, all C(641,2) pairs of push/pull statuses, in three board contexts: all transposition hashes pairwise different. The domain is finite and enumerated completely.",
         "none.", "DESIGN.md §4 C17"),
 "C18": ("type checker for Send+Sync, then loom: exhaustive exploration of all thread interleavings (within a preemption bound) of real engine code on a token-substituted copy",
         "Stage A: 14 public types are Send + Sync (compile-time). Stage B: five harness bodies (concurrent expansion of never-before-queried shared states with a 5-turn history incl. pushes, pulls, passes and 4th steps that append to the shared history; divergent play on a shared tail with different drop orders; hand-over through a mutex; concurrent drops of lists sharing a tail; a shared state whose pass is withheld as a third repetition) are explored by loom over every interleaving within the bound; each thread's result fingerprints must equal the sequential ones; loom also reports leaked/double-freed Arcs and deadlocks. E1/E2 additionally fingerprint every state before and after expansion (never modified after construction). Stage C (auxiliary, sampled schedules, labelled so): the same scenarios with std threads under Miri's data-race detector, for unsynchronised state (Cell/UnsafeCell behind unsafe impl Sync, static mut) that the substitution cannot reach.",
         "loom sees only primitives reached by the std::sync/std::thread token substitution (site count in evidence); vendor/loom carries mocks of Arc::into_inner, Arc::make_mut, OnceLock and the comparison traits of Arc; preemption bound as listed per body. Statics that hold or construct a primitive become loom::lazy_static (re-created for every execution: every interleaving is a cold start; bodies B1 / B5 let the threads make the first queries). Stages C (Miri, 3 / 16 seeds) and D (native threads on real cores, 4 / 20 s, incl. 60 / 300 cold-start child processes) sample schedules and are auxiliary: they are what is left when a tree cannot be built under loom.", "DESIGN.md §3.6, §4 C18"),
 "C19": ("explicit-state exploration with every named query under catch_unwind, overflow checks on",
         "On every state of E1/E2/E3 every query named in the statement and take_action of every offered action is executed under catch_unwind in a build with overflow-checks=true; any unwind is a violation.",
         "Queries outside their documented phase are not called.", "DESIGN.md §4 C19"),
 "C20": ("enumeration of a grid of child processes (profile x stack size x ownership shape x history length) with exit status as oracle, plus loom exploration of every interleaving of concurrent drops with a stack-depth probe",
         "Child processes play a deterministic capture-free, repetition-free game of N turns (every action taken from valid_actions()) or build a synthetic history of N nodes, then clone, query and drop it in ten ownership shapes (sole owner, clone, shared tails dropped in both orders, another thread, concurrent owners, diverging descendants, 64 clones, handles into the middle of the list, and twins: the same game built twice, compared with ==, hashed and used as HashSet/HashMap keys) on threads of 2 MiB and 256 KiB, in release and dev builds; N up to 1e6 (thorough 4e6 synthetic, 1e5 played). A stack overflow kills the child; any non-zero exit is a violation. Because the drop of a shared history races between owners, loom body B6 additionally explores every interleaving of 2-3 (thorough 4) owners dropping lists that share a 300-node tail, with a probe in each element's Drop that bounds the stack used below the drop call (4096 bytes; the iterative drop needs ~150).",
         "Monotonicity of recursion depth in N; lengths beyond the ladder are covered only through the 256 KiB row's per-node bound.", "DESIGN.md §4 C20"),
}
TODO = {}
props = [json.loads(l)["id"] for l in open(os.path.join(V, "properties.jsonl"))]
import sys
implemented = set(sys.argv[1].split(",")) if len(sys.argv) > 1 else set(CHECKS)
checks, na = [], []
for pid in props:
    if pid in CHECKS and pid in implemented:
        tech, text, note, ref = CHECKS[pid]
        checks.append({
            "property_id": pid,
            "quick_cmd": f"./check {pid} quick",
            "thorough_cmd": f"./check {pid} thorough",
            "evidence_file": f"/verif/evidence/{pid}.json",
            "replay_cmd_template": f"./check {pid} --replay {{path}}",
            "engine": "mc",
            "level_claimed": {"category": "model_checking", "text": text, "design_ref": ref},
            "level_note": note,
            "technique": tech,
        })
    else:
        na.append({"property_id": pid, "reason": "check not built yet in this revision (planned: see DESIGN.md §4); not claimed"})
m = {
    "version": 1,
    "setup_cmd": "./setup.sh",
    "hooks": {
        "guard": "none",
        "enable": "no source hooks: every observation point is public API; the harness crates depend on /repo by path (symlink /verif/engine-link) and are rebuilt from its working tree by ./check",
        "baseline_off_cmd": "cd /repo && cargo test --workspace --no-fail-fast --offline",
        "source_commits": [],
        "add_only": True,
    },
    "engines": [
        {"name": "mc", "path": "/verif/mc", "serves_properties": [c["property_id"] for c in checks],
         "kind_free_text": "Rust harness: explicit-state explorers over the real engine (E1 turn explorer, E2 confined-game explorer, E3 setup trie, E4 string enumerators, E5 hash-feature table, E7 child-process ladder) with an independent mailbox reference model of the Arimaa rules"},
    ],
    "checks": checks,
    "not_applicable": na,
    "notes": "Genuine defects found and repaired by 'fix:' commits in /repo are listed in /verif/known_findings.json (status fixed; they suppress nothing).",
}
json.dump(m, open(os.path.join(V, "MANIFEST.json"), "w"), indent=1)
print("checks:", len(checks), "not claimed:", [x["property_id"] for x in na])
