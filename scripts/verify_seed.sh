#!/bin/bash
# scripts/verify_seed.sh <agent-worktree> <property> <name> "<needs>" — independently confirms a seeded change in a fresh
# scratch worktree (patch applies, repo suite passes with it, demo fails with it and passes without) and stores it under
# /verif/seeded/<name>/.
set -u
src="$1"; prop="$2"; name="$3"; needs="${4:-}"
V=/verif
wt=$(mktemp -d /tmp/vs.XXXXXX); rmdir "$wt"
git -C /repo worktree add -q --detach "$wt" HEAD || exit 2
trap 'git -C /repo worktree remove --force "$wt" 2>/dev/null; rm -rf "$wt"' EXIT
export CARGO_TARGET_DIR=/tmp/vs-target CARGO_NET_OFFLINE=true
cd "$wt"
mkdir -p tests; cp "$src/tests/demo.rs" tests/demo.rs
ok=1
git apply --check "$src/patch.diff" || { echo "patch does not apply"; exit 1; }
# demo on pristine source
cargo test --offline --test demo >/tmp/vs-demo-clean.log 2>&1; rc_clean=$?
git apply "$src/patch.diff"
cargo test --offline --lib >/tmp/vs-lib.log 2>&1; rc_lib=$?
cargo test --offline --doc >/tmp/vs-doc.log 2>&1; rc_doc=$?
cargo test --offline --test demo >/tmp/vs-demo-mut.log 2>&1; rc_mut=$?
lib=$(grep "test result" /tmp/vs-lib.log | head -1); doc=$(grep "test result" /tmp/vs-doc.log | tail -1)
echo "pristine demo rc=$rc_clean ; with change: lib rc=$rc_lib ($lib) doc rc=$rc_doc ($doc) demo rc=$rc_mut"
if [ $rc_clean -ne 0 ] || [ $rc_lib -ne 0 ] || [ $rc_doc -ne 0 ] || [ $rc_mut -eq 0 ]; then echo "NOT CONFIRMED"; exit 1; fi
mkdir -p "$V/seeded/$name"
cp "$src/patch.diff" "$V/seeded/$name/patch.diff"
cp "$src/tests/demo.rs" "$V/seeded/$name/demo.rs"
[ -f "$src/REPORT.md" ] && cp "$src/REPORT.md" "$V/seeded/$name/REPORT.md"
python3 - "$V/seeded/$name/meta.json" "$prop" "$name" "$needs" "$lib" "$doc" <<'P'
import json,sys
json.dump({"property":sys.argv[2],"name":sys.argv[3],"needs_to_manifest":sys.argv[4],
 "origin":"fresh sub-agent given only the property text and a scratch worktree",
 "confirmed":{"patch_applies_to":"/repo HEAD","cargo_test_lib_with_change":sys.argv[5],"cargo_test_doc_with_change":sys.argv[6],
   "demo_with_change":"fails","demo_without_change":"passes",
   "commands":["git apply patch.diff","cargo test --offline --lib","cargo test --offline --doc","cargo test --offline --test demo (with and without the change)"]},
 "detected_by":{}}, open(sys.argv[1],"w"), indent=1)
P
echo "CONFIRMED -> $V/seeded/$name"
