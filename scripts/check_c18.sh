#!/bin/bash
# C18: (A) Send+Sync decided by the type checker, (B) loom exploration of real engine code on an instrumented copy,
# (C, thorough only, auxiliary) Miri data-race detection on free-running std threads.
set -u
TIER="${1:-quick}"
VERIF="$(cd "$(dirname "$0")/.." && pwd)"
REPO="${VERIF_REPO:-/repo}"
export CARGO_NET_OFFLINE=true
mkdir -p "$VERIF/target" "$VERIF/evidence" "$VERIF/violations"
ln -sfn "$REPO" "$VERIF/engine-link"

# force a rebuild of the engine inside the sendsync target whenever the sources changed (mtimes are not reliable
# once engine-link has pointed at another tree)
SRC_HASH=$( (cd "$REPO" && cat Cargo.toml src/*.rs 2>/dev/null | sha256sum | cut -d' ' -f1) )
mkdir -p "$VERIF/target/sendsync"
if [ "$(cat "$VERIF/target/sendsync/.engine-src-hash" 2>/dev/null)" != "$SRC_HASH" ]; then
  find "$VERIF/target/sendsync" -type d -path '*/.fingerprint/arimaa_engine_step-*' -prune -exec rm -rf {} + 2>/dev/null
  find "$VERIF/target/sendsync" -type d -path '*/.fingerprint/sendsync-*' -prune -exec rm -rf {} + 2>/dev/null
  echo "$SRC_HASH" > "$VERIF/target/sendsync/.engine-src-hash"
fi

for t in mirih mirih-native; do
  mkdir -p "$VERIF/target/$t"
  if [ "$(cat "$VERIF/target/$t/.engine-src-hash" 2>/dev/null)" != "$SRC_HASH" ]; then
    find "$VERIF/target/$t" -type d -path '*/.fingerprint/arimaa_engine_step-*' -prune -exec rm -rf {} + 2>/dev/null
    echo "$SRC_HASH" > "$VERIF/target/$t/.engine-src-hash"
  fi
done

# ---- stage A ----
logA="$VERIF/target/build-sendsync.log"
if ! (cd "$VERIF/sendsync" && CARGO_TARGET_DIR="$VERIF/target/sendsync" cargo build --offline >"$logA" 2>&1); then
  if grep -q "E0277" "$logA" && grep -q "C18-A" "$logA"; then
    cp "$logA" "$VERIF/violations/C18-0.txt"
    python3 "$VERIF/scripts/c18_driver.py" --stage-a-failed "$VERIF/violations/C18-0.txt" "$TIER"
    echo "VIOLATION property=C18 replay=$VERIF/violations/C18-0.txt"
    grep -E "C18-A|cannot be (sent|shared)" "$logA" | head -8
    exit 1
  fi
  echo "MACHINERY-ERROR: sendsync build failed for a reason other than Send/Sync (see $logA)"; tail -20 "$logA"; exit 2
fi

# ---- stage B: instrumented copy (assembled and built by scripts/build_loom.sh) ----
WS="$VERIF/target/loomws"
if ! "$VERIF/scripts/build_loom.sh" > "$VERIF/target/build-loom-outer.log" 2>&1; then
  # distinguish "the tree uses an API loom cannot model" (fall back to stages A + C) from a broken harness
  if grep -qE "no (function or associated item|method) named|cannot find (type|struct|function)|unresolved import|is not (a )?const|E0599|E0433|E0432|E0015" "$VERIF/target/build-loomh.log" 2>/dev/null && grep -q "engine/src" "$VERIF/target/build-loomh.log"; then
    export C18_NO_LOOM=1
  else
    cat "$VERIF/target/build-loom-outer.log"; exit 2
  fi
fi
python3 "$VERIF/scripts/c18_driver.py" --run "$VERIF/target/loom/release/loomh" "$WS/substitutions.json" "$TIER"
exit $?
