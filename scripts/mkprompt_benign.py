#!/usr/bin/env python3
"""scripts/mkprompt_benign.py <wt-name> "<focus hint>" — brief for a sub-agent that writes a PROPERTY-PRESERVING change
(used to test that the checks raise no false alarm)."""
import json, sys
name, hint = sys.argv[1], sys.argv[2]
props = [json.loads(l) for l in open('/verif/properties.jsonl')]
wt = f"/tmp/seedw/{name}"
plist = "\n".join(f"  {p['id']} {p['title']}: {p['statement']}" for p in props)
txt = f"""You are working in a scratch git worktree of the Rust library `arimaa-engine-step` (Arimaa board-game rules engine).

Your worktree: {wt}   (work ONLY inside it; do not read or touch /repo or /verif; build with
`CARGO_NET_OFFLINE=true CARGO_TARGET_DIR={wt}/target cargo ... --offline`; there is no network.)

Users of the library rely on these 20 semantic properties:

{plist}

YOUR TASK: write a NON-TRIVIAL change to the library's source (src/*.rs, not the tests) that a maintainer could plausibly
commit and that changes the implementation in an observable or structural way but PRESERVES ALL 20 PROPERTIES above and the
public API (all public items keep their names, signatures and documented meaning; nothing that compiles against the crate
today may stop compiling), and passes the existing suite unedited (`cargo test --offline`: 120 unit + 6 doc tests).
The point is to produce a change on which an over-strict verifier would raise a FALSE alarm: it should differ from the
original in things the properties deliberately do NOT pin down.
Focus for this one: {hint}
Be careful that every property really still holds (think each one through against your change); if in doubt choose a safer change.

DELIVERABLES (inside your worktree):
  1. {wt}/patch.diff  - output of `git diff -- src` (apply-able with `git apply` to the pristine HEAD). Only src/ files.
  2. {wt}/REPORT.md - what you changed, what observable/internal behaviour differs from the original, and a short argument
     per affected property why it still holds.
Leave the worktree with the change applied. Do not commit. In your final message give a short kebab-case name and a one-sentence summary.
"""
open(f"/tmp/seedw/{name}.prompt.txt", "w").write(txt)
print(f"/tmp/seedw/{name}.prompt.txt")
