#!/bin/bash
# scripts/mkwt.sh <name>... — creates one scratch git worktree of /repo per name under /tmp/seedw/ (for sub-agents)
for n in "$@"; do
  d=/tmp/seedw/$n
  git -C /repo worktree remove --force "$d" 2>/dev/null; rm -rf "$d"
  git -C /repo worktree add -q --detach "$d" HEAD && echo "$d"
done
