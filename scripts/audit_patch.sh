#!/bin/bash
# scripts/audit_patch.sh <patch-file> <label> — applies a patch to a SCRATCH COPY of /repo (via $VERIF_REPO; /repo is not
# touched), runs the repository's own tests there, then EVERY quick check, and prints one line per check.
cd /verif
patch="$1"; label="$2"
scratch=$(mktemp -d /tmp/verif-audit.XXXXXX)
trap 'rm -rf "$scratch"; ln -sfn /repo /verif/engine-link' EXIT
mkdir -p "$scratch/repo"
(cd /repo && tar cf - --exclude=target --exclude=.git .) | (cd "$scratch/repo" && tar xf -)
(cd "$scratch/repo" && patch -p1 -s < "$patch") || exit 2
(cd "$scratch/repo" && CARGO_TARGET_DIR="$scratch/target" cargo test --offline -q 2>&1 | grep "test result" | sed "s/^/$label: suite: /")
VERIF_REPO="$scratch/repo" ./scripts/run_all.sh quick 2>&1 | sed "s/^/$label: /" | cut -c1-260
git -C /verif checkout -- evidence 2>/dev/null
