#!/bin/bash
# Assembles the token-substituted copy of the engine ($VERIF_REPO or /repo: std::sync / std::thread / UnsafeCell -> loom::...)
# plus the loom harness in /verif/target/loomws and builds it (target dir /verif/target/loom).  Used by C18 and by C20's
# concurrent-drop body.  Exit 0 = target/loom/release/loomh is up to date; 2 = build failed (machinery).
set -u
VERIF="$(cd "$(dirname "$0")/.." && pwd)"
REPO="${VERIF_REPO:-/repo}"
export CARGO_NET_OFFLINE=true
WS="$VERIF/target/loomws"
mkdir -p "$WS"
rm -rf "$WS/engine" "$WS/loomh"
mkdir -p "$WS/engine"
cp -r "$REPO/src" "$WS/engine/src"
python3 - "$REPO/Cargo.toml" "$WS/engine/Cargo.toml" <<'P'
import re,sys
s=open(sys.argv[1]).read()+"\n"
s=re.sub(r'\[dev-dependencies\]\n(?:[^\[].*\n|\n)*','',s)
s=re.sub(r'\[\[bench\]\]\n(?:[^\[].*\n|\n)*','',s)
s=s.replace('[dependencies]\n','[dependencies]\nloom = { path = "../../../vendor/loom" }\n',1)
s+='\n[workspace]\n'
open(sys.argv[2],'w').write(s)
P
python3 - "$WS/engine/src" "$WS/substitutions.json" <<'P'
import re,sys,os,json,hashlib
root=sys.argv[1]
subs={}
h=hashlib.sha256()
for f in sorted(os.listdir(root)):
    if not f.endswith('.rs'): continue
    p=os.path.join(root,f)
    s=open(p).read()
    h.update(f.encode()); h.update(s.encode())
    n=0
    for a,b in (('std::sync::','loom::sync::'),('std::thread::','loom::thread::')):  # (UnsafeCell is left to Miri: loom's has a different API)
        c=s.count(a); n+=c; s=s.replace(a,b)
    # grouped imports: use std::{sync::Arc, ...}
    grouped=len(re.findall(r'use\s+std::\{[^}]*\b(sync|thread)::',s))
    # Items holding a loom primitive cannot be const-initialised (loom's Atomic*/Mutex/RwLock::new are not const fn):
    #  1. `const NAME: T = EXPR;` whose EXPR constructs a primitive is removed and every array-repeat use `[NAME; N]` becomes
    #     `std::array::from_fn::<_, { N }, _>(|_| EXPR)`;
    #  2. `static NAME: T = EXPR;` whose type names a primitive or whose EXPR (after step 1) constructs one becomes
    #     `loom::lazy_static! { static ref NAME: T = EXPR; }` (loom resets it for every execution: each explored
    #     interleaving is a cold start, which is exactly what a racy lazy initialisation needs).
    PRIM = r'(?:Atomic\w+|Mutex|RwLock|Condvar)'
    ns=0
    def items(kind, text):
        """yields (start, end, indent, vis, name, type, expr) of `<vis> kind NAME: TYPE = EXPR;` items (top level of a line)"""
        for m in re.finditer(r'^([ \t]*)((?:pub(?:\([^)]*\))?\s+)?)' + kind + r'\s+(\w+)\s*:\s*', text, re.M):
            i = m.end(); depth = 0; eq = None
            while i < len(text):
                ch = text[i]
                if ch in '([{<': depth += 1
                elif ch in ')]}>': depth -= 1
                elif ch == '=' and depth == 0 and text[i+1] != '=': eq = i; break
                elif ch == ';' and depth == 0: break
                i += 1
            if eq is None: continue
            j = eq + 1; depth = 0
            while j < len(text):
                ch = text[j]
                if ch in '([{': depth += 1
                elif ch in ')]}': depth -= 1
                elif ch == ';' and depth == 0: break
                j += 1
            yield (m.start(), j + 1, m.group(1), m.group(2), m.group(3), text[m.end():eq].strip(), text[eq+1:j].strip())
    if n:
        # step 1
        changed = True
        while changed:
            changed = False
            for (st, en, ind, vis, name, typ, expr) in items('const', s):
                if re.search(PRIM + r'::new\s*\(', expr) or re.search(r'\b' + PRIM + r'\b', typ):
                    s = s[:st] + '// (const %s inlined for the loom build)' % name + s[en:]
                    s = re.sub(r'\[\s*' + re.escape(name) + r'\s*;\s*([^\]]+?)\s*\]', lambda m: 'std::array::from_fn::<_, { %s }, _>(|_| %s)' % (m.group(1), expr), s)
                    ns += 1; changed = True
                    break
        # step 2
        changed = True
        while changed:
            changed = False
            for (st, en, ind, vis, name, typ, expr) in items('static', s):
                if re.search(r'\b' + PRIM + r'\b', typ) or re.search(PRIM + r'::new\s*\(', expr):
                    s = s[:st] + '%sloom::lazy_static! { %sstatic ref %s: %s = %s; }' % (ind, vis, name, typ, expr) + s[en:]
                    ns += 1; changed = True
                    break
    if n: open(p,'w').write(s)
    subs[f]={"substituted":n,"statics_made_lazy":ns,"grouped_std_imports_not_substituted":grouped}
json.dump({"files":subs,"total":sum(v["substituted"] for v in subs.values()),"src_sha256":h.hexdigest()},open(sys.argv[2],'w'),indent=1)
P
cp -r "$VERIF/loomh" "$WS/loomh"
logB="$VERIF/target/build-loomh.log"
if ! (cd "$WS/loomh" && CARGO_TARGET_DIR="$VERIF/target/loom" cargo build --release --offline >"$logB" 2>&1); then
  echo "MACHINERY-ERROR: loom harness build failed (see $logB)"; grep -E "^error" -A12 "$logB" | head -40; exit 2
fi
exit 0
