#!/bin/bash
# Assembles the token-substituted copy of the engine ($VERIF_REPO or /repo: std::sync / std::thread / UnsafeCell -> loom::...)
# plus the loom harness in /verif/target/loomws and builds it (target dir /verif/target/loom).  Used by C18 and by C20's
# concurrent-drop body.  Exit 0 = target/loom/release/loomh is up to date; 2 = build failed (machinery).
set -u
VERIF="$(cd "$(dirname "$0")/.." && pwd)"
REPO="${VERIF_REPO:-/repo}"
export CARGO_NET_OFFLINE=true
WS="$VERIF/target/loomws"
mkdir -p "$WS"
rm -rf "$WS/engine" "$WS/loomh"
mkdir -p "$WS/engine"
cp -r "$REPO/src" "$WS/engine/src"
python3 - "$REPO/Cargo.toml" "$WS/engine/Cargo.toml" <<'P'
import re,sys
s=open(sys.argv[1]).read()+"\n"
s=re.sub(r'\[dev-dependencies\]\n(?:[^\[].*\n|\n)*','',s)
s=re.sub(r'\[\[bench\]\]\n(?:[^\[].*\n|\n)*','',s)
s=s.replace('[dependencies]\n','[dependencies]\nloom = { path = "../../../vendor/loom" }\n',1)
s+='\n[workspace]\n'
open(sys.argv[2],'w').write(s)
P
python3 - "$WS/engine/src" "$WS/substitutions.json" <<'P'
import re,sys,os,json,hashlib
root=sys.argv[1]
subs={}
h=hashlib.sha256()
for f in sorted(os.listdir(root)):
    if not f.endswith('.rs'): continue
    p=os.path.join(root,f)
    s=open(p).read()
    h.update(f.encode()); h.update(s.encode())
    n=0
    for a,b in (('std::sync::','loom::sync::'),('std::thread::','loom::thread::')):  # (UnsafeCell is left to Miri: loom's has a different API)
        c=s.count(a); n+=c; s=s.replace(a,b)
    # grouped imports: use std::{sync::Arc, ...}
    grouped=len(re.findall(r'use\s+std::\{[^}]*\b(sync|thread)::',s))
    # statics holding a loom primitive cannot be const-initialised: turn them into loom::lazy_static (reset per execution)
    stat=re.compile(r'^([ \t]*)((?:pub(?:\([^)]*\))?\s+)?)static\s+(\w+)\s*:\s*([^=;]*?(?:Mutex|RwLock|Condvar|Atomic\w+)[^=;]*?)\s*=\s*(.+?);[ \t]*$', re.M|re.S)
    ns=0
    def repl(m):
        global ns
        ns+=1
        return '%sloom::lazy_static! { %sstatic ref %s: %s = %s; }' % (m.group(1),m.group(2),m.group(3),m.group(4),m.group(5))
    if n:
        s=stat.sub(repl,s)
    if n: open(p,'w').write(s)
    subs[f]={"substituted":n,"statics_made_lazy":ns,"grouped_std_imports_not_substituted":grouped}
json.dump({"files":subs,"total":sum(v["substituted"] for v in subs.values()),"src_sha256":h.hexdigest()},open(sys.argv[2],'w'),indent=1)
P
cp -r "$VERIF/loomh" "$WS/loomh"
logB="$VERIF/target/build-loomh.log"
if ! (cd "$WS/loomh" && CARGO_TARGET_DIR="$VERIF/target/loom" cargo build --release --offline >"$logB" 2>&1); then
  echo "MACHINERY-ERROR: loom harness build failed (see $logB)"; grep -E "^error" -A12 "$logB" | head -40; exit 2
fi
exit 0
