#!/bin/bash
# scripts/audit_cross.sh <seeded-name> — applies one seeded change to /repo, runs EVERY quick check, reverts; prints which
# properties raise an alarm (to judge by hand whether each alarm is legitimate for that change).
cd /verif
name="$1"
if ! git -C /repo diff --quiet; then echo "/repo has local modifications; refusing"; exit 2; fi
git -C /repo apply "/verif/seeded/$name/patch.diff" || exit 2
./scripts/run_all.sh quick 2>&1 | sed "s/^/$name: /" | cut -c1-260
git -C /repo checkout -- .; git -C /repo clean -fdq -- src tests 2>/dev/null
git -C /verif checkout -- evidence 2>/dev/null
