#!/bin/bash
# scripts/audit_cross.sh <seeded-name> — applies one seeded change to a SCRATCH COPY of /repo (via $VERIF_REPO, /repo is
# not touched), runs EVERY quick check against it, and prints which properties raise an alarm (to judge by hand whether
# each alarm is legitimate for that change).
cd /verif
name="$1"
scratch=$(mktemp -d /tmp/verif-audit.XXXXXX)
trap 'rm -rf "$scratch"; ln -sfn /repo /verif/engine-link' EXIT
mkdir -p "$scratch/repo"
(cd /repo && tar cf - --exclude=target --exclude=.git .) | (cd "$scratch/repo" && tar xf -)
(cd "$scratch/repo" && patch -p1 -s < "/verif/seeded/$name/patch.diff") || exit 2
VERIF_REPO="$scratch/repo" ./scripts/run_all.sh quick 2>&1 | sed "s/^/$name: /" | cut -c1-230
git -C /verif checkout -- evidence 2>/dev/null
