#!/bin/bash
# scripts/ingest.sh <wt-name> <property> <seed-name> "<needs>" — verify a sub-agent's change independently, store it under
# seeded/, run the quick check of its property against it (applied to /repo, reverted afterwards), remove the worktree.
set -u
wt=/tmp/seedw/$1; prop=$2; name=$3; needs="$4"
cd /verif
./scripts/verify_seed.sh "$wt" "$prop" "$name" "$needs" || { echo "INGEST: not confirmed"; exit 1; }
./scripts/run_seeded.sh "$name"
git -C /repo worktree remove --force "$wt" 2>/dev/null; rm -rf "$wt" "/tmp/seedw/$1.prompt.txt"
