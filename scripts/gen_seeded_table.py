#!/usr/bin/env python3
"""Regenerates the seeded-change detection table of DESIGN.md (between the SEEDED-TABLE markers) from seeded/*/meta.json."""
import json, glob, os, re
V = os.path.dirname(os.path.dirname(os.path.abspath(__file__)))
rows = []
for m in sorted(glob.glob(os.path.join(V, "seeded", "*", "meta.json"))):
    j = json.load(open(m))
    det = j.get("detected_by", {})
    caught = [k for k, v in det.items() if v.get("detected")]
    missed = [k for k, v in det.items() if not v.get("detected")]
    first = ""
    for k in caught:
        first = det[k].get("first_violation", "").replace("what:", "").strip()
        break
    note = j.get("history_note", "")
    rows.append("| %s | %s | %s%s | %s |" % (j["name"], j["needs_to_manifest"].replace("|", "/"), ", ".join(caught) or "-", (" (silent, as expected or not targeted: " + ", ".join(missed) + ")") if missed else "", (note + " " if note else "") + first[:110]))
table = "| seeded change | needs | quick checks that report it | first violation reported / note |\n|---|---|---|---|\n" + "\n".join(rows) + "\n"
p = os.path.join(V, "DESIGN.md")
s = open(p).read()
repl = "<!-- SEEDED-TABLE-BEGIN -->\n" + table + "<!-- SEEDED-TABLE-END -->"
s = re.sub(r"<!-- SEEDED-TABLE-BEGIN -->.*<!-- SEEDED-TABLE-END -->", lambda m: repl, s, flags=re.S)
open(p, "w").write(s)
print(len(rows), "rows")
