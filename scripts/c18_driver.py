#!/usr/bin/env python3
"""Runs the loom bodies (one child process per body/bound), writes evidence/C18.json, prints the verdict."""
import json, os, subprocess, sys, time
from concurrent.futures import ThreadPoolExecutor
V = os.path.dirname(os.path.dirname(os.path.abspath(__file__)))

def write_evidence(tier, cov, wall, violations, assumptions):
    ev = {"property_id": "C18", "tier": tier, "seed": int(os.environ.get("VERIF_SEED", "0") or 0), "level": "model_checking",
          "coverage": cov, "assumptions": assumptions, "wall_s": round(wall, 3), "violations": violations}
    os.makedirs(os.path.join(V, "evidence"), exist_ok=True)
    json.dump(ev, open(os.path.join(V, "evidence", "C18.json"), "w"), indent=1)

ASSUME = ["loom explores every interleaving of the harness bodies at loom's scheduling points (Arc clone/drop/into_inner, Mutex, spawn/join) within the stated preemption bound; code that synchronises through anything the token substitution does not reach (static mut, raw UnsafeCell, atomics spelled through a grouped import) is invisible to it - the number of substituted sites is reported, 0 makes stage B vacuous",
          "vendor/loom = loom 0.7.2 + a mock of Arc::into_inner (see vendor/README.md)"]

if sys.argv[1] == "--stage-a-failed":
    tier = sys.argv[3]
    cov = {"states": 1, "transitions": 1, "traces_validated_against_impl": 0, "samples": ["stage A: cargo build of /verif/sendsync against /repo failed with E0277 (a public type is not Send + Sync); see " + sys.argv[2]],
           "exhaustive": True, "stage_A": "FAILED"}
    write_evidence(tier, cov, 0.0, 1, ASSUME)
    sys.exit(0)

exe, subs_path, tier = sys.argv[2], sys.argv[3], sys.argv[4]
NO_LOOM = os.environ.get("C18_NO_LOOM") == "1"
subs = json.load(open(subs_path)) if os.path.exists(subs_path) else {"total": 0, "files": {}}
thorough = tier == "thorough"
# (body, threads, preemption bound)
if thorough:
    jobs = [("B1", 2, "5"), ("B1", 3, "3"), ("B2", 2, "none"), ("B2", 3, "3"), ("B3", 2, "none"), ("B3", 3, "3"), ("B4", 2, "none"), ("B4", 3, "none"), ("B4", 4, "3"), ("B5", 2, "6"), ("B5", 3, "3"), ("B6", 2, "none"), ("B6", 3, "none")]
else:
    jobs = [("B1", 2, "4"), ("B1", 3, "2"), ("B2", 2, "3"), ("B2", 3, "2"), ("B3", 2, "none"), ("B3", 3, "2"), ("B4", 2, "none"), ("B4", 3, "3"), ("B5", 2, "3"), ("B5", 3, "2"), ("B6", 2, "none"), ("B6", 3, "3")]
timeout = 3300 if thorough else 100
if NO_LOOM:
    jobs = []

def run(job):
    body, threads, bound = job
    t0 = time.time()
    try:
        p = subprocess.run([exe, "run", body, str(threads), bound], capture_output=True, text=True, timeout=timeout)
        return job, p.returncode, p.stdout, p.stderr, time.time() - t0
    except subprocess.TimeoutExpired as e:
        return job, -999, "", "timeout after %ss" % timeout, time.time() - t0

def run_miri():
    """Stage C (auxiliary, sampled schedules): the std-thread harness under Miri's data-race detector."""
    seeds = 16 if thorough else 3
    env = dict(os.environ, CARGO_TARGET_DIR=os.path.join(V, "target", "mirih"), CARGO_NET_OFFLINE="true",
               MIRIFLAGS="-Zmiri-disable-isolation -Zmiri-ignore-leaks -Zmiri-many-seeds=0..%d" % seeds)
    t0 = time.time()
    try:
        p = subprocess.run(["cargo", "+nightly", "miri", "run", "--offline"], cwd=os.path.join(V, "mirih"), env=env,
                           capture_output=True, text=True, timeout=1500 if thorough else 240)
    except subprocess.TimeoutExpired:
        return {"ran": False, "note": "timeout"}
    except FileNotFoundError:
        return {"ran": False, "note": "cargo not found"}
    out = p.stdout + p.stderr
    res = {"ran": True, "seeds": seeds, "wall_s": round(time.time() - t0, 1), "ok_runs": out.count("mirih ok")}
    if "Undefined Behavior" in out or "Data race" in out or "data race" in out:
        lines = [l for l in out.splitlines() if "Undefined Behavior" in l or "ata race" in l or "-->" in l]
        res.update(violation=True, message=" | ".join(lines[:6])[:1200])
    elif "MIRIH:" in out:
        res.update(violation=True, message=" | ".join(l for l in out.splitlines() if "MIRIH:" in l)[:800])
    elif p.returncode != 0:
        res.update(ran=False, note="miri did not run to completion (exit %d): %s" % (p.returncode, out[-300:]))
    return res

def run_stress():
    """Stage D (auxiliary, sampled schedules): native threads on real cores - a hot loop of queries over a shared pool of
    states and rounds of full expansion of fresh states, every observation compared with the sequential one."""
    secs = 20 if thorough else 4
    env = dict(os.environ, CARGO_TARGET_DIR=os.path.join(V, "target", "mirih-native"), CARGO_NET_OFFLINE="true")
    t0 = time.time()
    try:
        b = subprocess.run(["cargo", "build", "--release", "--offline"], cwd=os.path.join(V, "mirih"), env=env, capture_output=True, text=True, timeout=600)
        if b.returncode != 0:
            return {"ran": False, "note": "native build of the std-thread harness failed: %s" % (b.stderr[-300:])}
        p = subprocess.run([os.path.join(V, "target", "mirih-native", "release", "mirih"), "stress", str(secs)], capture_output=True, text=True, timeout=secs * 10 + 120)
    except subprocess.TimeoutExpired:
        return {"ran": False, "note": "timeout"}
    out = p.stdout + p.stderr
    res = {"ran": True, "seconds": secs, "wall_s": round(time.time() - t0, 1), "summary": (p.stdout.strip().splitlines() or [""])[-1][:200]}
    if "MIRIH-STRESS:" in out:
        res.update(violation=True, message=" | ".join(l for l in out.splitlines() if "MIRIH-STRESS:" in l)[:800])
    elif p.returncode != 0:
        res.update(violation=True, message="the stress process died (exit %s): %s" % (p.returncode, out[-400:]))
    return res

t0 = time.time()
with ThreadPoolExecutor(max_workers=8) as ex:
    miri_future = ex.submit(run_miri)
    results = list(ex.map(run, jobs))
    miri = miri_future.result()
# stage D runs after the loom bodies (it wants the cores for itself)
stress = run_stress()
table, viol, capped = [], [], []
execs = calls = 0
for job, rc, out, err, wall in results:
    body, threads, bound = job
    row = {"body": body, "threads": threads, "preemption_bound": bound, "wall_s": round(wall, 2)}
    if rc == 0:
        try:
            j = json.loads(out.strip().splitlines()[-1])
            row.update(executions=j["executions"], engine_calls=j["engine_calls"], complete=True)
            execs += j["executions"]; calls += j["engine_calls"]
        except Exception as e:
            row.update(complete=False, note="unreadable output: %r" % out[-200:]); capped.append(row)
    elif rc == -999:
        row.update(complete=False, note="wall cap hit - this body/bound is NOT covered"); capped.append(row)
    else:
        msg = [l for l in err.splitlines() if "panicked" in l or "assert" in l or "B1:" in l or "B2:" in l or "B3:" in l or "B4:" in l or "B5" in l or "B6" in l or "Arc" in l or "deadlock" in l.lower() or "leak" in l.lower()]
        row.update(complete=False, failed=True, exit=rc, message=" | ".join(msg[:6])[-900:] or err[-600:])
        viol.append(row)
    table.append(row)
vac = subs["total"] == 0 or NO_LOOM
cov = {
    "states": max(execs, 1), "transitions": max(calls, 1), "traces_validated_against_impl": execs,
    "evaluations": max(execs, 1), "distinct_nontrivial": execs,
    "rule": "one case = one complete execution (thread interleaving) of a harness body explored by loom; all are non-trivial in that >=2 threads operate on the same shared history nodes",
    "samples": [{"body": "B1", "what": "k threads run valid_actions / valid_actions_no_rep / is_terminal / take_action (incl. pass and 4th step) / clone / drop on one shared mid-turn state and one shared step-3 state with a 4-turn history while main drops its handles; every thread's fingerprints must equal the sequential ones"},
                {"body": "B2", "what": "threads take different actions from a shared state, play 2 more turns on the shared history tail, drop in different orders"},
                {"body": "B3", "what": "state handed over through a Mutex and expanded in the receiving thread while parent and sibling are used and dropped in the sender"},
                {"body": "B5", "what": "k threads expand a shared mid-turn state in which the pass is withheld as a third repetition (eight shuffling turns behind it) and the turn-start state before it"},
                {"body": "B6", "what": "k owners of lists sharing a 300-node tail drop them concurrently; a probe in every element's Drop bounds the stack used below the drop call (a release path that recurses once per node would abort the process for long histories, which is not 'the result of sequential expansion')"},
                {"body": "B4", "what": "several lists sharing a 4-node tail are read, tail()-ed and dropped concurrently (iterative Drop / Arc::into_inner race)"}],
    "exhaustive": (not capped) and (not vac),
    "exhaustive_meaning": "every interleaving of each listed body within the listed preemption bound ('none' = unbounded) was executed by loom",
    "bodies": table, "stage_A": "Send + Sync hold for 14 public types (cargo build of /verif/sendsync)",
    "instrumentation": subs,
    "stage_B_vacuous": vac,
    "stage_C_miri_auxiliary_sampled": miri,
    "stage_D_native_stress_auxiliary_sampled": stress,
}
viol_count_extra = (1 if miri.get("violation") else 0) + (1 if stress.get("violation") else 0)
write_evidence(tier, cov, time.time() - t0, len(viol) + viol_count_extra, ASSUME)
print("C18 %s: executions=%d engine_calls=%d substituted_sites=%d bodies=%d wall=%.1fs" % (tier, execs, calls, subs["total"], len(table), time.time() - t0))
if NO_LOOM:
    print("NOTE: the instrumented copy does not build under loom (the tree uses a std::sync API that loom 0.7.2 + vendor shims do not model; see target/build-loomh.log) - stage B was NOT run; the verdict rests on stage A (type checker) and the sampled stages C (Miri) and D (native stress) only")
elif vac:
    print("NOTE: 0 std::sync/std::thread sites were substituted - stage B is vacuous by construction; verdict rests on stage A")
if miri.get("violation"):
    viol.append({"body": "stage C (Miri, std threads)", "threads": 3, "preemption_bound": "n/a", "message": miri.get("message", "")})
if not miri.get("ran"):
    print("NOTE: stage C (Miri, auxiliary) did not run: %s" % miri.get("note"))
if stress.get("violation"):
    viol.append({"body": "stage D (native threads, stress)", "threads": 12, "preemption_bound": "n/a", "message": stress.get("message", "")})
if not stress.get("ran"):
    print("NOTE: stage D (native stress, auxiliary) did not run: %s" % stress.get("note"))
if viol:
    os.makedirs(os.path.join(V, "violations"), exist_ok=True)
    path = os.path.join(V, "violations", "C18-0.json")
    json.dump({"property": "C18", "failed_bodies": viol, "replay": ("%s run %s %s %s" % (exe, viol[0]["body"], viol[0]["threads"], viol[0]["preemption_bound"])) if viol[0]["body"].startswith("B") else "/verif/target/mirih-native/release/mirih stress 4   (sampled schedules: repeat if it passes)" if viol[0]["body"].startswith("stage D") else "cd /verif/mirih && CARGO_TARGET_DIR=/verif/target/mirih MIRIFLAGS='-Zmiri-disable-isolation -Zmiri-ignore-leaks' cargo +nightly miri run --offline"}, open(path, "w"), indent=1)
    print("VIOLATION property=C18 replay=%s" % path)
    for v in viol:
        print("  body %s threads=%s bound=%s: %s" % (v["body"], v["threads"], v["preemption_bound"], v["message"]))
    sys.exit(1)
if capped:
    for c in capped:
        print("CAPPED: body %s threads=%s bound=%s: %s" % (c["body"], c["threads"], c["preemption_bound"], c.get("note")))
sys.exit(0)
