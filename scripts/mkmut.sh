#!/bin/bash
# scripts/mkmut.sh <name> <property> <file> <python-regex> <replacement> [description]
# Creates mutants/<name>.patch by applying one substitution (first match) to a scratch copy of /repo/src/<file>.
set -eu
name="$1"; prop="$2"; file="$3"; pat="$4"; rep="$5"; desc="${6:-}"
tmp=$(mktemp -d /tmp/mkmut.XXXX)
mkdir -p "$tmp/a/src" "$tmp/b/src"
cp "/repo/src/$file" "$tmp/a/src/$file"
python3 - "$tmp/a/src/$file" "$tmp/b/src/$file" "$pat" "$rep" <<'P'
import re,sys
s=open(sys.argv[1]).read()
n,c=re.subn(sys.argv[3],sys.argv[4],s,count=1,flags=re.S)
if c!=1: sys.exit("pattern not found")
open(sys.argv[2],'w').write(n)
P
{ echo "# property: $prop"; echo "# description: $desc"; (cd "$tmp" && diff -u "a/src/$file" "b/src/$file" || true); } > "/verif/mutants/$name.patch"
rm -rf "$tmp"
echo "wrote mutants/$name.patch"
