#!/bin/bash
# scripts/run_seeded.sh [name-glob] [extra check ids...] — applies each /verif/seeded/<name>/patch.diff to /repo, runs the
# quick check of its property (plus any extra ids), reverts /repo, and records the outcome in meta.json (detected_by).
cd /verif
glob="${1:-*}"; shift || true
extra="$*"
if ! git -C /repo diff --quiet; then echo "/repo has local modifications; refusing"; exit 2; fi
for d in seeded/$glob/; do
  name=$(basename "$d"); prop=$(python3 -c "import json;print(json.load(open('$d/meta.json'))['property'])")
  git -C /repo apply "$PWD/$d/patch.diff" || { echo "$name: patch does not apply"; continue; }
  for id in $prop $extra; do
    out=$(./check $id quick 2>&1); rc=$?
    what=$(echo "$out" | grep -m1 "what:" | cut -c1-160)
    echo "SEEDED $name: check $id rc=$rc $what"
    python3 - "$d/meta.json" "$id" "$rc" "$what" <<'P'
import json,sys
p=sys.argv[1]; m=json.load(open(p)); m.setdefault("detected_by",{})[sys.argv[2]]={"exit":int(sys.argv[3]),"detected":sys.argv[3]=="1","first_violation":sys.argv[4].strip()}
json.dump(m,open(p,"w"),indent=1)
P
  done
  git -C /repo checkout -- . ; git -C /repo clean -fdq -- src tests 2>/dev/null
done
git -C /verif checkout -- evidence 2>/dev/null
