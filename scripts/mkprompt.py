#!/usr/bin/env python3
"""scripts/mkprompt.py <wt-name> <property-id> "<variety hint>" — writes /tmp/seedw/<wt-name>.prompt.txt: the brief given to
a fresh sub-agent (property text only; nothing from /verif)."""
import json, sys
name, pid, hint = sys.argv[1], sys.argv[2], sys.argv[3]
p = next(json.loads(l) for l in open('/verif/properties.jsonl') if json.loads(l)['id'] == pid)
wt = f"/tmp/seedw/{name}"
txt = f"""You are working in a scratch git worktree of the Rust library `arimaa-engine-step` (Arimaa board-game rules engine:
bitboard state, step/push/pull move generation, terminal detection, repetition rules, Zobrist hashing, parsers).

Your worktree: {wt}   (work ONLY inside it; do not read or touch /repo or /verif; build with
`CARGO_NET_OFFLINE=true CARGO_TARGET_DIR={wt}/target cargo ... --offline`; there is no network.)

A semantic property that users of this library rely on:

  Title: {p['title']}
  Statement: {p['statement']}
  Quantified: {p['quantifier']['text']}

YOUR TASK: write a change to the library's source (src/*.rs, not the tests) that BREAKS this property while
  (a) still compiling without new warnings-as-errors,
  (b) still passing the whole existing test suite unedited: `cargo test --offline` (120 unit tests + 6 doc tests) must pass,
  (c) looking like something a maintainer could plausibly commit (an optimisation, a refactor, a cache, a lookup table,
      an early exit, a 'simplification', a bug-fix attempt) - not sabotage with magic constants,
  (d) needing something SPECIFIC to manifest - a particular multi-step sequence of operations, an unusual input, a rare
      combination of state components, or two cooperating sites that each look fine alone - so that ordinary use
      (opening positions, a few plain moves, small hand-drawn boards) would NOT expose it at once.
Variety requirement for this one: {hint}

Read the source first (src/engine.rs is the core) and understand the mechanism before choosing. Make sure your change
really violates the property AS STATED (not just some internal detail) and that it is not already a behaviour of the
unmodified code.

DELIVERABLES (all inside your worktree):
  1. {wt}/patch.diff  - output of `git diff -- src` (apply-able with `git apply` to the pristine HEAD). Only src/ files.
  2. {wt}/tests/demo.rs - an integration test (uses only the crate's public API: `use arimaa_engine_step::*;`) with one or
     more #[test] functions that FAIL with your change and PASS on the pristine source. Verify both yourself:
     with the change applied `cargo test --offline --test demo` must fail; after `git stash`/reverting src it must pass.
     The demo should state the property violation directly (e.g. compare with what the rules demand), not an internal detail.
  3. {wt}/REPORT.md - a short paragraph: what you changed, why it breaks the property, and exactly what is needed for it
     to manifest (the specific sequence/input/state).
Leave the worktree with the change APPLIED to src/ and the three files present. Do not commit.

In your final message give: a short kebab-case name for the change, one sentence 'needs to manifest: ...', and confirm the
four facts (compiles; 120+6 tests pass with the change; demo fails with it; demo passes without it).
"""
open(f"/tmp/seedw/{name}.prompt.txt", "w").write(txt)
print(f"/tmp/seedw/{name}.prompt.txt")
